//! C11, multi-thread part: caller threads (one handle clone each) allocate identifiers
//! concurrently; shuttle owns the interleaving of the threads at every access to the shared
//! identifier counters (poster's `verif` atomic shim calls the scheduling-point callback).
//! The context then serves the queued requests inside the ordinary simulator and the wire is
//! judged by the C11 oracle. A failing schedule is persisted by shuttle and replays exactly.

use posim::analysis::Analysis;
use posim::oracle;
use posim::refcodec::Props;
use posim::scenario::*;
use posim::spec::*;
use posim::world::World;
use poster::{PublishOpts, QoS, SubscribeOpts, SubscriptionOpts, UnsubscribeOpts};
use shuttle::scheduler::{PctScheduler, RandomScheduler};
use shuttle::{Config, FailurePersistence, Runner};
use std::future::Future;
use std::panic::{catch_unwind, AssertUnwindSafe};
use std::pin::Pin;
use std::rc::Rc;
use std::sync::atomic::{AtomicU64, Ordering};
use std::sync::Arc;
use std::task::{Context, Poll, Wake, Waker};
use std::time::Instant;

struct Noop;
impl Wake for Noop {
    fn wake(self: Arc<Self>) {}
}

static EXECUTIONS: AtomicU64 = AtomicU64::new(0);
static WRAPS: AtomicU64 = AtomicU64::new(0);
static MAX_REQUESTS: AtomicU64 = AtomicU64::new(0);

type OpFuture = Pin<Box<dyn Future<Output = ()> + Send>>;

/// One controlled execution. `param` selects thread count / operations per thread / preset.
fn scenario(param: u64) {
    EXECUTIONS.fetch_add(1, Ordering::Relaxed);
    let threads = 2 + (param % 3) as usize; // 2..4
    let per_thread = 1 + ((param / 3) % 4) as usize; // 1..4
    let back = ((param / 12) % 6) as u16; // counter starts 0..5 before the wrap
    let config = posim::scenario::Config { handles: threads, preset_ids: Some((65_535 - back, 1 + (param % 90) as u32)), ..Default::default() };
    let mut w = World::new(config);
    let connect = ConnectSpec { client_id: Some("t".into()), ..Default::default() };
    for s in [
        Step::Start { connect, auths: vec![] },
        Step::Settle { seed: 0 },
        Step::Broker { pkt: BrokerPkt::Connack { session_present: false, reason: 0, props: Props::new() }, chunks: Chunks::Whole, hold: false },
        Step::Settle { seed: 1 },
    ] {
        w.exec(&s);
    }
    // every access to the shared counters becomes a scheduling point of the calling thread
    poster::verif::set_sched_point(Some(Rc::new(|| shuttle::thread::sleep(std::time::Duration::ZERO))));
    let mut joins = Vec::new();
    for t in 0..threads {
        let handle = w.handles[t].clone().expect("handle clone");
        joins.push(shuttle::thread::spawn(move || {
            let waker = Waker::from(Arc::new(Noop));
            let mut cx = Context::from_waker(&waker);
            let mut futs: Vec<OpFuture> = Vec::new();
            for j in 0..per_thread {
                let mut h = handle.clone();
                // kinds 4..6 are requests the builders refuse (no topic / no filter): they consume an
                // identifier as well and then fail locally
                let kind = (t * 3 + j * 5 + (param as usize / 7)) % 7;
                let name = format!("t/{}", t * 100 + j);
                let mut fut: OpFuture = Box::pin(async move {
                    match kind {
                        0 => drop(h.publish(PublishOpts::new().qos(QoS::AtLeastOnce).topic_name(&name).payload(b"x")).await),
                        1 => drop(h.publish(PublishOpts::new().qos(QoS::ExactlyOnce).topic_name(&name).payload(b"x")).await),
                        2 => drop(h.subscribe(SubscribeOpts::new().subscription(&name, SubscriptionOpts::new())).await.map(|_| ())),
                        3 => drop(h.unsubscribe(UnsubscribeOpts::new().topic_filter(&name)).await.map(|_| ())),
                        4 => drop(h.unsubscribe(UnsubscribeOpts::new()).await.map(|_| ())),
                        5 => drop(h.publish(PublishOpts::new().qos(QoS::AtLeastOnce).payload(b"no topic")).await),
                        _ => drop(h.subscribe(SubscribeOpts::new()).await.map(|_| ())),
                    }
                });
                // first poll: allocates the identifier(s) and submits the request
                let _ = fut.as_mut().poll(&mut cx);
                futs.push(fut);
            }
            futs
        }));
    }
    let mut keep: Vec<OpFuture> = Vec::new();
    let mut caller_panicked = false;
    for j in joins {
        match j.join() {
            Ok(f) => keep.extend(f),
            Err(_) => caller_panicked = true,
        }
    }
    poster::verif::set_sched_point(None);
    assert!(!caller_panicked, "C11/panic: a caller thread panicked while starting an operation");
    // the context now serves what the callers queued
    w.exec(&Step::Settle { seed: 2 });
    w.finish();
    let a = Analysis::of(&w);
    let requests = a.wire.iter().filter(|p| p.pkt.pid().is_some()).count();
    MAX_REQUESTS.fetch_max(requests as u64, Ordering::Relaxed);
    if a.wire.iter().filter_map(|p| p.pkt.pid()).any(|id| id < 100) {
        WRAPS.fetch_add(1, Ordering::Relaxed);
    }
    let mut viols = oracle::c11(&a);
    for v in viols.iter_mut() {
        if v.class.starts_with("C11/duplicate-id") {
            v.class = "C11/duplicate-id/threads".into();
        }
    }
    let mut valid = 0usize;
    for t in 0..threads {
        for j in 0..per_thread {
            if (t * 3 + j * 5 + (param as usize / 7)) % 7 < 4 {
                valid += 1;
            }
        }
    }
    assert_eq!(requests, valid, "C11/lost-request: {} of {} valid requests reached the wire", requests, valid);
    assert!(viols.is_empty(), "{}: {}", viols[0].class, viols[0].message);
    drop(keep);
}

/// C07, multi-thread part: caller threads (one handle clone each) call subscribe()
/// concurrently, so that the order in which subscription identifiers are allocated and the
/// order in which the SUBSCRIBE requests reach the context may differ. Afterwards the context
/// serves them, the broker acknowledges each and sends one message per subscription identifier
/// (before and after the SUBACKs), and every subscribe() call must get exactly its own message.
fn scenario_c07(param: u64) {
    use futures::StreamExt;
    EXECUTIONS.fetch_add(1, Ordering::Relaxed);
    let threads = 2 + (param % 2) as usize; // 2..3
    let per_thread = 1 + ((param / 2) % 3) as usize; // 1..3
    let early = (param / 6) % 2 == 0; // messages before the SUBACKs
    let config = posim::scenario::Config { handles: threads, preset_ids: Some((1 + (param % 50) as u16, 1 + (param % 90) as u32)), ..Default::default() };
    let mut w = World::new(config);
    let connect = ConnectSpec { client_id: Some("t".into()), ..Default::default() };
    for s in [
        Step::Start { connect, auths: vec![] },
        Step::Settle { seed: 0 },
        Step::Broker { pkt: BrokerPkt::Connack { session_present: false, reason: 0, props: Props::new() }, chunks: Chunks::Whole, hold: false },
        Step::Settle { seed: 1 },
    ] {
        w.exec(&s);
    }
    let got: Arc<std::sync::Mutex<Vec<(String, String)>>> = Arc::new(std::sync::Mutex::new(Vec::new()));
    poster::verif::set_sched_point(Some(Rc::new(|| shuttle::thread::sleep(std::time::Duration::ZERO))));
    let mut joins = Vec::new();
    for t in 0..threads {
        let handle = w.handles[t].clone().expect("handle clone");
        let got = got.clone();
        joins.push(shuttle::thread::spawn(move || {
            let waker = Waker::from(Arc::new(Noop));
            let mut cx = Context::from_waker(&waker);
            let mut futs: Vec<OpFuture> = Vec::new();
            for j in 0..per_thread {
                let mut h = handle.clone();
                let got = got.clone();
                let name = format!("f/{}", t * 100 + j);
                let mut fut: OpFuture = Box::pin(async move {
                    if let Ok(rsp) = h.subscribe(SubscribeOpts::new().subscription(&name, SubscriptionOpts::new())).await {
                        let mut stream = rsp.stream();
                        while let Some(msg) = stream.next().await {
                            got.lock().unwrap().push((name.clone(), msg.topic_name().to_string()));
                        }
                    }
                });
                let _ = fut.as_mut().poll(&mut cx);
                futs.push(fut);
            }
            futs
        }));
    }
    let mut keep: Vec<OpFuture> = Vec::new();
    for j in joins {
        keep.extend(j.join().expect("caller thread"));
    }
    poster::verif::set_sched_point(None);
    w.exec(&Step::Settle { seed: 2 });
    // what reached the wire: (packet identifier, subscription identifier, filter)
    let subs: Vec<(u16, u32, String)> = {
        let a = Analysis::of(&w);
        a.wire
            .iter()
            .filter_map(|p| match &p.pkt {
                posim::refcodec::Packet::Subscribe(s) => Some((s.pid, s.props.varints(posim::refcodec::pid::SUBSCRIPTION_ID).first().copied().unwrap_or(0), s.filters.first().map(|f| f.0.clone()).unwrap_or_default())),
                _ => None,
            })
            .collect()
    };
    assert_eq!(subs.len(), threads * per_thread, "C07/lost-request/threads: {} of {} SUBSCRIBE packets on the wire", subs.len(), threads * per_thread);
    let publish = |w: &mut World, sid: u32, filter: &str, tag: &str| {
        w.exec(&Step::Broker {
            pkt: BrokerPkt::Publish { subs: vec![SubRef::Raw(sid)], qos: 0, id: IdSpec::Fresh, dup: false, retain: false, topic: format!("{tag}/{filter}"), payload: b"x".to_vec(), props: Props::new() },
            chunks: Chunks::Whole,
            hold: false,
        });
    };
    if early {
        for (_, sid, f) in &subs {
            publish(&mut w, *sid, f, "early");
        }
    }
    for (pid, _, _) in &subs {
        w.exec(&Step::Broker { pkt: BrokerPkt::AckRaw { kind: AckKind::Suback, pid: *pid, reasons: vec![0], props: Props::new(), form: posim::refcodec::Form::Full }, chunks: Chunks::Whole, hold: false });
    }
    for (_, sid, f) in &subs {
        publish(&mut w, *sid, f, "late");
    }
    w.exec(&Step::Settle { seed: 3 });
    // the callers now see their SUBACK, open their streams and drain them
    let waker = Waker::from(Arc::new(Noop));
    let mut cx = Context::from_waker(&waker);
    for _ in 0..4 {
        for f in keep.iter_mut() {
            let _ = f.as_mut().poll(&mut cx);
        }
        w.exec(&Step::Settle { seed: 4 });
    }
    w.finish();
    let got = got.lock().unwrap().clone();
    for (_, _, f) in &subs {
        let mine: Vec<&String> = got.iter().filter(|(name, _)| name == f).map(|(_, t)| t).collect();
        let mut want: Vec<String> = Vec::new();
        if early {
            want.push(format!("early/{f}"));
        }
        want.push(format!("late/{f}"));
        assert!(mine.iter().map(|s| s.as_str()).eq(want.iter().map(|s| s.as_str())), "C07/missing-item/threads: subscribe({f}) received {:?}, expected {:?}", mine, want);
    }
    MAX_REQUESTS.fetch_max(subs.len() as u64, Ordering::Relaxed);
    drop(keep);
}

/// C05, multi-thread part: caller threads (one handle clone each) start QoS 1/2 publishes,
/// subscribes and unsubscribes concurrently; the context then serves the queue, the broker
/// acknowledges every request *in reverse wire order* with a reason string naming the request
/// (failing reason codes for the publishes, so that the content reaches the caller), and every
/// future must complete exactly once with the acknowledgement addressed to it.
fn scenario_c05(param: u64) {
    EXECUTIONS.fetch_add(1, Ordering::Relaxed);
    let threads = 2 + (param % 3) as usize; // 2..4
    let per_thread = 1 + ((param / 3) % 3) as usize; // 1..3
    let back = ((param / 9) % 4) as u16;
    let config = posim::scenario::Config { handles: threads, preset_ids: Some((if param % 2 == 0 { 65_535 - back } else { 250 + back }, 1 + (param % 90) as u32)), ..Default::default() };
    let mut w = World::new(config);
    let connect = ConnectSpec { client_id: Some("t".into()), ..Default::default() };
    for s in [
        Step::Start { connect, auths: vec![] },
        Step::Settle { seed: 0 },
        Step::Broker { pkt: BrokerPkt::Connack { session_present: false, reason: 0, props: Props::new() }, chunks: Chunks::Whole, hold: false },
        Step::Settle { seed: 1 },
    ] {
        w.exec(&s);
    }
    // (request name, what the caller was told: the reason string of the acknowledgement it got)
    let got: Arc<std::sync::Mutex<Vec<(String, String)>>> = Arc::new(std::sync::Mutex::new(Vec::new()));
    poster::verif::set_sched_point(Some(Rc::new(|| shuttle::thread::sleep(std::time::Duration::ZERO))));
    let mut joins = Vec::new();
    for t in 0..threads {
        let handle = w.handles[t].clone().expect("handle clone");
        let got = got.clone();
        joins.push(shuttle::thread::spawn(move || {
            let waker = Waker::from(Arc::new(Noop));
            let mut cx = Context::from_waker(&waker);
            let mut futs: Vec<OpFuture> = Vec::new();
            for j in 0..per_thread {
                let mut h = handle.clone();
                let got = got.clone();
                let kind = (t * 3 + j * 5 + (param as usize / 7)) % 4;
                let name = format!("n/{}", t * 100 + j);
                let mut fut: OpFuture = Box::pin(async move {
                    let told: String = match kind {
                        0 => match h.publish(PublishOpts::new().qos(QoS::AtLeastOnce).topic_name(&name).payload(b"x")).await {
                            Err(poster::error::MqttError::PubackError(e)) => e.reason_string().unwrap_or("<none>").to_string(),
                            other => format!("{:?}", other.map_err(|e| e.to_string())),
                        },
                        1 => match h.publish(PublishOpts::new().qos(QoS::ExactlyOnce).topic_name(&name).payload(b"x")).await {
                            Err(poster::error::MqttError::PubrecError(e)) => e.reason_string().unwrap_or("<none>").to_string(),
                            other => format!("{:?}", other.map_err(|e| e.to_string())),
                        },
                        2 => match h.subscribe(SubscribeOpts::new().subscription(&name, SubscriptionOpts::new())).await {
                            Ok(rsp) => rsp.reason_string().unwrap_or("<none>").to_string(),
                            Err(e) => format!("Err({e})"),
                        },
                        _ => match h.unsubscribe(UnsubscribeOpts::new().topic_filter(&name)).await {
                            Ok(rsp) => rsp.reason_string().unwrap_or("<none>").to_string(),
                            Err(e) => format!("Err({e})"),
                        },
                    };
                    got.lock().unwrap().push((name, told));
                });
                let _ = fut.as_mut().poll(&mut cx);
                futs.push(fut);
            }
            futs
        }));
    }
    let mut keep: Vec<OpFuture> = Vec::new();
    for j in joins {
        keep.extend(j.join().expect("caller thread"));
    }
    poster::verif::set_sched_point(None);
    w.exec(&Step::Settle { seed: 2 });
    // requests on the wire: (acknowledgement kind, packet identifier, name)
    let reqs: Vec<(AckKind, u16, String)> = {
        let a = Analysis::of(&w);
        a.wire
            .iter()
            .filter_map(|p| match &p.pkt {
                posim::refcodec::Packet::Publish(x) if x.qos == 1 => Some((AckKind::Puback, x.pid.unwrap(), x.topic.clone())),
                posim::refcodec::Packet::Publish(x) if x.qos == 2 => Some((AckKind::Pubrec, x.pid.unwrap(), x.topic.clone())),
                posim::refcodec::Packet::Subscribe(x) => Some((AckKind::Suback, x.pid, x.filters.first().map(|f| f.0.clone()).unwrap_or_default())),
                posim::refcodec::Packet::Unsubscribe(x) => Some((AckKind::Unsuback, x.pid, x.filters.first().cloned().unwrap_or_default())),
                _ => None,
            })
            .collect()
    };
    assert_eq!(reqs.len(), threads * per_thread, "C05/lost-request/threads: {} of {} requests on the wire", reqs.len(), threads * per_thread);
    for (kind, pid, name) in reqs.iter().rev() {
        let reason = match kind {
            AckKind::Puback | AckKind::Pubrec => 0x80,
            _ => 0,
        };
        let props = Props::new().with(posim::refcodec::pid::REASON_STRING, posim::refcodec::PropVal::Str(name.clone()));
        w.exec(&Step::Broker { pkt: BrokerPkt::AckRaw { kind: *kind, pid: *pid, reasons: vec![reason], props, form: posim::refcodec::Form::Full }, chunks: Chunks::Whole, hold: false });
    }
    w.exec(&Step::Settle { seed: 3 });
    let waker = Waker::from(Arc::new(Noop));
    let mut cx = Context::from_waker(&waker);
    let mut done = vec![false; keep.len()];
    for _ in 0..3 {
        for (k, f) in keep.iter_mut().enumerate() {
            if !done[k] && f.as_mut().poll(&mut cx).is_ready() {
                done[k] = true;
            }
        }
        w.exec(&Step::Settle { seed: 4 });
    }
    w.finish();
    let got = got.lock().unwrap().clone();
    for (_, _, name) in &reqs {
        let mine: Vec<&String> = got.iter().filter(|(n, _)| n == name).map(|(_, t)| t).collect();
        assert!(mine.len() == 1 && mine[0] == name, "C05/wrong-ack/threads: request {name} was told {:?}, expected exactly its own acknowledgement", mine);
    }
    MAX_REQUESTS.fetch_max(reqs.len() as u64, Ordering::Relaxed);
    drop(keep);
}

fn write_evidence(prop: &str, out: &str, tier: &str, seed: u64, wall: f64, violations: u64, schedulers: &[(&str, u64)], sample: serde_json::Value) {
    // merged into the single-task evidence file by the check script (see tools/merge_c11.py)
    let ev = serde_json::json!({
        "tier": tier, "seed": seed, "wall_s": wall, "violations": violations,
        "executions": EXECUTIONS.load(Ordering::Relaxed),
        "executions_crossing_the_wrap": WRAPS.load(Ordering::Relaxed),
        "max_requests_per_execution": MAX_REQUESTS.load(Ordering::Relaxed),
        "schedulers": schedulers.iter().map(|(n, i)| serde_json::json!({"name": n, "iterations": i})).collect::<Vec<_>>(),
        "scheduling_points": "every load/store/read-modify-write of ContextHandle.packet_id and .sub_id (poster::verif atomic shim)",
        "sample": sample,
        "components": {"real": ["ContextHandle::publish/subscribe/unsubscribe on 2-4 caller threads", "futures-channel mpsc", "Context::run serving afterwards", "SubscribeStream (C07)"], "stub": ["thread scheduler (shuttle 0.9.3, random and PCT)", "transport/broker (posim)"]},
    });
    std::fs::create_dir_all(format!("{out}/evidence")).ok();
    std::fs::write(format!("{out}/evidence/{prop}.threads.json"), serde_json::to_string_pretty(&ev).unwrap()).expect("write evidence");
}

fn run_scenario(prop: &str, param: u64) {
    match prop {
        "C07" => scenario_c07(param),
        "C05" => scenario_c05(param),
        _ => scenario(param),
    }
}

fn main() {
    let args: Vec<String> = std::env::args().skip(1).collect();
    let flag = |name: &str| -> Option<String> { args.iter().position(|a| a == name).and_then(|i| args.get(i + 1).cloned()) };
    let out = flag("--out").unwrap_or_else(|| "/verif".into());
    let prop: String = flag("--prop").unwrap_or_else(|| "C11".into());
    let seed: u64 = flag("--seed").and_then(|s| s.parse().ok()).or_else(|| std::env::var("VERIF_SEED").ok().and_then(|s| s.parse().ok())).unwrap_or(1);
    match args.first().map(|s| s.as_str()) {
        Some("replay") => {
            let path = args.get(1).expect("schedule file");
            // file name carries the scenario parameter: <dir>/C11-threads-<param>-...
            let param: u64 = path.rsplit('/').next().and_then(|f| f.split('-').nth(2)).and_then(|s| s.parse().ok()).expect("parameter in file name");
            // the file name also says which property's scenario it belongs to
            let prop: String = path.rsplit('/').next().and_then(|f| f.split('-').next()).unwrap_or("C11").to_string();
            let which = prop.clone();
            let r = catch_unwind(AssertUnwindSafe(|| shuttle::replay_from_file(move || run_scenario(&which, param), path)));
            match r {
                Err(e) => {
                    let msg = e.downcast_ref::<String>().cloned().or_else(|| e.downcast_ref::<&str>().map(|s| s.to_string())).unwrap_or_default();
                    let tag = format!("{prop}/");
                    if msg.contains(&tag) {
                        println!("VIOLATION property={prop} replay={path}");
                        println!("reproduced: {}", msg.lines().find(|l| l.contains(&tag)).unwrap_or(""));
                        std::process::exit(1);
                    }
                    // the recorded schedule does not fit this build (different scheduling points)
                    println!("NOT REPRODUCED (schedule does not apply: {})", msg.lines().next().unwrap_or("").chars().take(120).collect::<String>());
                    std::process::exit(0);
                }
                Ok(()) => {
                    println!("NOT REPRODUCED");
                    std::process::exit(0);
                }
            }
        }
        Some("check") => {
            let tier = flag("--tier").unwrap_or_else(|| "quick".into());
            let (params, iters): (u64, usize) = match (prop.as_str(), tier == "thorough") {
                ("C11", true) => (72, 30_000),
                ("C11", false) => (48, 2_000),
                (_, true) => (24, 20_000),
                (_, false) => (24, 1_500),
            };
            let t0 = Instant::now();
            let replay_dir = format!("{out}/replays");
            std::fs::create_dir_all(&replay_dir).ok();
            let mut violations = 0u64;
            let mut totals = [("random", 0u64), ("pct(depth 3)", 0u64)];
            for k in 0..params {
                let param = k.wrapping_mul(7).wrapping_add(seed.wrapping_mul(13)) % 72;
                for (si, sched) in ["random", "pct"].iter().enumerate() {
                    let mut cfg = Config::new();
                    // shuttle writes the failing schedule into a directory of its own, so that
                    // exactly one file can be attributed to this run
                    // (shuttle captures the persistence directory of the FIRST runner of a process in a
                    // `Once`, so it has to be the same directory for every run and must stay in place)
                    let tmp_dir = format!("{replay_dir}/.shuttle-{}", std::process::id());
                    std::fs::create_dir_all(&tmp_dir).ok();
                    cfg.failure_persistence = FailurePersistence::File(Some(std::path::PathBuf::from(&tmp_dir)));
                    let s = seed.wrapping_mul(1_000_003).wrapping_add(k);
                    let r = catch_unwind(AssertUnwindSafe(|| {
                        if *sched == "random" {
                            let which = prop.clone();
                            Runner::new(RandomScheduler::new_from_seed(s, iters), cfg).run(move || run_scenario(&which, param));
                        } else {
                            let which = prop.clone();
                            Runner::new(PctScheduler::new_from_seed(s, 3, iters / 2), cfg).run(move || run_scenario(&which, param));
                        }
                    }));
                    totals[si].1 += if *sched == "random" { iters as u64 } else { (iters / 2) as u64 };
                    if let Err(e) = r {
                        violations += 1;
                        let msg = e.downcast_ref::<String>().cloned().or_else(|| e.downcast_ref::<&str>().map(|s| s.to_string())).unwrap_or_default();
                        let target = format!("{replay_dir}/{prop}-threads-{param}-{sched}-{s}.schedule");
                        let produced: Vec<_> = std::fs::read_dir(&tmp_dir).map(|d| d.filter_map(|e| e.ok()).map(|e| e.path()).collect()).unwrap_or_default();
                        match produced.first() {
                            Some(f) => {
                                std::fs::rename(f, &target).ok();
                            }
                            None => {
                                eprintln!("harness error: shuttle did not persist the failing schedule");
                                std::process::exit(2);
                            }
                        }
                    let tag = format!("{prop}/");
                        let first = msg.lines().find(|l| l.contains(&tag)).or_else(|| msg.lines().next()).unwrap_or("").to_string();
                        println!("VIOLATION property={prop} replay={target}");
                        println!("  class/message: {first}");
                        std::fs::remove_dir_all(&tmp_dir).ok();
                        // shuttle persists only the first failing schedule of a process: stop here
                        break;
                    }
                }
                if violations >= 1 {
                    break;
                }
            }
            std::fs::remove_dir_all(format!("{replay_dir}/.shuttle-{}", std::process::id())).ok();
            let wall = t0.elapsed().as_secs_f64();
            write_evidence(&prop, &out, &tier, seed, wall, violations, &totals, serde_json::json!({"param": 17, "threads": 2 + 17 % 3, "ops_per_thread": 1 + (17 / 3) % 4, "preset_packet_id": 65_535 - ((17 / 12) % 6)}));
            println!("done {prop} (threads): {} controlled executions ({} crossed the wrap), {:.1}s, {} violation(s)", EXECUTIONS.load(Ordering::Relaxed), WRAPS.load(Ordering::Relaxed), wall, violations);
            std::process::exit(if violations > 0 { 1 } else { 0 });
        }
        _ => {
            eprintln!("usage: posim-threads check [--prop C11|C07|C05] [--tier quick|thorough] [--seed N] [--out DIR] | replay <schedule file>");
            std::process::exit(2);
        }
    }
}
