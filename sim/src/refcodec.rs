//! Independent, strict MQTT 5.0 encoder/decoder written from the OASIS text. Shares no code
//! with poster. Oracle for C01/C02, wire parser for every other property.

use serde::{Deserialize, Serialize};

#[derive(Clone, Debug, PartialEq, Eq, Hash, Serialize, Deserialize)]
pub enum PropVal {
    Byte(u8),
    U16(u16),
    U32(u32),
    VarInt(u32),
    Str(String),
    Bin(Vec<u8>),
    Pair(String, String),
}

#[derive(Clone, Debug, PartialEq, Eq, Hash, Serialize, Deserialize, Default)]
pub struct Props(pub Vec<(u8, PropVal)>);

impl Props {
    pub fn new() -> Self {
        Props(Vec::new())
    }
    pub fn push(&mut self, id: u8, v: PropVal) -> &mut Self {
        self.0.push((id, v));
        self
    }
    pub fn with(mut self, id: u8, v: PropVal) -> Self {
        self.0.push((id, v));
        self
    }
    pub fn get(&self, id: u8) -> Option<&PropVal> {
        self.0.iter().find(|(i, _)| *i == id).map(|(_, v)| v)
    }
    pub fn all(&self, id: u8) -> Vec<&PropVal> {
        self.0.iter().filter(|(i, _)| *i == id).map(|(_, v)| v).collect()
    }
    pub fn str(&self, id: u8) -> Option<&str> {
        match self.get(id) {
            Some(PropVal::Str(s)) => Some(s.as_str()),
            _ => None,
        }
    }
    pub fn bin(&self, id: u8) -> Option<&[u8]> {
        match self.get(id) {
            Some(PropVal::Bin(b)) => Some(b.as_slice()),
            _ => None,
        }
    }
    pub fn byte(&self, id: u8) -> Option<u8> {
        match self.get(id) {
            Some(PropVal::Byte(b)) => Some(*b),
            _ => None,
        }
    }
    pub fn u16(&self, id: u8) -> Option<u16> {
        match self.get(id) {
            Some(PropVal::U16(b)) => Some(*b),
            _ => None,
        }
    }
    pub fn u32(&self, id: u8) -> Option<u32> {
        match self.get(id) {
            Some(PropVal::U32(b)) => Some(*b),
            _ => None,
        }
    }
    pub fn varints(&self, id: u8) -> Vec<u32> {
        self.0
            .iter()
            .filter_map(|(i, v)| match v {
                PropVal::VarInt(x) if *i == id => Some(*x),
                _ => None,
            })
            .collect()
    }
    pub fn user(&self) -> Vec<(String, String)> {
        self.0
            .iter()
            .filter_map(|(i, v)| match v {
                PropVal::Pair(k, w) if *i == 0x26 => Some((k.clone(), w.clone())),
                _ => None,
            })
            .collect()
    }
    /// Order-insensitive view except for user properties, whose relative order is kept.
    pub fn normalized(&self) -> (Vec<(u8, PropVal)>, Vec<(String, String)>) {
        let mut others: Vec<(u8, PropVal)> =
            self.0.iter().filter(|(i, _)| *i != 0x26).cloned().collect();
        others.sort_by(|a, b| a.0.cmp(&b.0).then_with(|| format!("{:?}", a.1).cmp(&format!("{:?}", b.1))));
        (others, self.user())
    }
    pub fn is_empty(&self) -> bool {
        self.0.is_empty()
    }
}

pub mod pid {
    pub const PAYLOAD_FORMAT: u8 = 0x01;
    pub const MESSAGE_EXPIRY: u8 = 0x02;
    pub const CONTENT_TYPE: u8 = 0x03;
    pub const RESPONSE_TOPIC: u8 = 0x08;
    pub const CORRELATION_DATA: u8 = 0x09;
    pub const SUBSCRIPTION_ID: u8 = 0x0B;
    pub const SESSION_EXPIRY: u8 = 0x11;
    pub const ASSIGNED_CLIENT_ID: u8 = 0x12;
    pub const SERVER_KEEP_ALIVE: u8 = 0x13;
    pub const AUTH_METHOD: u8 = 0x15;
    pub const AUTH_DATA: u8 = 0x16;
    pub const REQUEST_PROBLEM_INFO: u8 = 0x17;
    pub const WILL_DELAY: u8 = 0x18;
    pub const REQUEST_RESPONSE_INFO: u8 = 0x19;
    pub const RESPONSE_INFO: u8 = 0x1A;
    pub const SERVER_REFERENCE: u8 = 0x1C;
    pub const REASON_STRING: u8 = 0x1F;
    pub const RECEIVE_MAXIMUM: u8 = 0x21;
    pub const TOPIC_ALIAS_MAXIMUM: u8 = 0x22;
    pub const TOPIC_ALIAS: u8 = 0x23;
    pub const MAXIMUM_QOS: u8 = 0x24;
    pub const RETAIN_AVAILABLE: u8 = 0x25;
    pub const USER_PROPERTY: u8 = 0x26;
    pub const MAXIMUM_PACKET_SIZE: u8 = 0x27;
    pub const WILDCARD_AVAILABLE: u8 = 0x28;
    pub const SUBSCRIPTION_ID_AVAILABLE: u8 = 0x29;
    pub const SHARED_AVAILABLE: u8 = 0x2A;
}

#[derive(Clone, Copy, Debug, PartialEq, Eq, Hash, Serialize, Deserialize, PartialOrd, Ord)]
pub enum Kind {
    Connect = 1,
    Connack = 2,
    Publish = 3,
    Puback = 4,
    Pubrec = 5,
    Pubrel = 6,
    Pubcomp = 7,
    Subscribe = 8,
    Suback = 9,
    Unsubscribe = 10,
    Unsuback = 11,
    Pingreq = 12,
    Pingresp = 13,
    Disconnect = 14,
    Auth = 15,
    Will = 16,
}

impl Kind {
    pub fn from_nibble(n: u8) -> Option<Kind> {
        Some(match n {
            1 => Kind::Connect,
            2 => Kind::Connack,
            3 => Kind::Publish,
            4 => Kind::Puback,
            5 => Kind::Pubrec,
            6 => Kind::Pubrel,
            7 => Kind::Pubcomp,
            8 => Kind::Subscribe,
            9 => Kind::Suback,
            10 => Kind::Unsubscribe,
            11 => Kind::Unsuback,
            12 => Kind::Pingreq,
            13 => Kind::Pingresp,
            14 => Kind::Disconnect,
            15 => Kind::Auth,
            _ => return None,
        })
    }
    pub fn name(self) -> &'static str {
        match self {
            Kind::Connect => "CONNECT",
            Kind::Connack => "CONNACK",
            Kind::Publish => "PUBLISH",
            Kind::Puback => "PUBACK",
            Kind::Pubrec => "PUBREC",
            Kind::Pubrel => "PUBREL",
            Kind::Pubcomp => "PUBCOMP",
            Kind::Subscribe => "SUBSCRIBE",
            Kind::Suback => "SUBACK",
            Kind::Unsubscribe => "UNSUBSCRIBE",
            Kind::Unsuback => "UNSUBACK",
            Kind::Pingreq => "PINGREQ",
            Kind::Pingresp => "PINGRESP",
            Kind::Disconnect => "DISCONNECT",
            Kind::Auth => "AUTH",
            Kind::Will => "WILL",
        }
    }
}

#[derive(Clone, Copy, PartialEq, Eq, Debug)]
pub enum PType {
    Byte,
    U16,
    U32,
    VarInt,
    Str,
    Bin,
    Pair,
}

/// (type, kinds it is legal in, may repeat) — MQTT 5.0 section 2.2.2.2.
pub fn prop_info(id: u8) -> Option<(PType, &'static [Kind], bool)> {
    use Kind::*;
    const ALL: &[Kind] = &[
        Connect, Connack, Publish, Puback, Pubrec, Pubrel, Pubcomp, Subscribe, Suback, Unsubscribe,
        Unsuback, Disconnect, Auth, Will,
    ];
    Some(match id {
        0x01 => (PType::Byte, &[Publish, Will], false),
        0x02 => (PType::U32, &[Publish, Will], false),
        0x03 => (PType::Str, &[Publish, Will], false),
        0x08 => (PType::Str, &[Publish, Will], false),
        0x09 => (PType::Bin, &[Publish, Will], false),
        0x0B => (PType::VarInt, &[Publish, Subscribe], true),
        0x11 => (PType::U32, &[Connect, Connack, Disconnect], false),
        0x12 => (PType::Str, &[Connack], false),
        0x13 => (PType::U16, &[Connack], false),
        0x15 => (PType::Str, &[Connect, Connack, Auth], false),
        0x16 => (PType::Bin, &[Connect, Connack, Auth], false),
        0x17 => (PType::Byte, &[Connect], false),
        0x18 => (PType::U32, &[Will], false),
        0x19 => (PType::Byte, &[Connect], false),
        0x1A => (PType::Str, &[Connack], false),
        0x1C => (PType::Str, &[Connack, Disconnect], false),
        0x1F => (
            PType::Str,
            &[Connack, Puback, Pubrec, Pubrel, Pubcomp, Suback, Unsuback, Disconnect, Auth],
            false,
        ),
        0x21 => (PType::U16, &[Connect, Connack], false),
        0x22 => (PType::U16, &[Connect, Connack], false),
        0x23 => (PType::U16, &[Publish], false),
        0x24 => (PType::Byte, &[Connack], false),
        0x25 => (PType::Byte, &[Connack], false),
        0x26 => (PType::Pair, ALL, true),
        0x27 => (PType::U32, &[Connect, Connack], false),
        0x28 => (PType::Byte, &[Connack], false),
        0x29 => (PType::Byte, &[Connack], false),
        0x2A => (PType::Byte, &[Connack], false),
        _ => return None,
    })
}

pub fn reason_codes(kind: Kind) -> &'static [u8] {
    match kind {
        Kind::Connack => &[
            0x00, 0x80, 0x81, 0x82, 0x83, 0x84, 0x85, 0x86, 0x87, 0x88, 0x89, 0x8A, 0x8C, 0x90, 0x95,
            0x97, 0x99, 0x9A, 0x9B, 0x9C, 0x9D, 0x9F,
        ],
        Kind::Puback | Kind::Pubrec => &[0x00, 0x10, 0x80, 0x83, 0x87, 0x90, 0x91, 0x97, 0x99],
        Kind::Pubrel | Kind::Pubcomp => &[0x00, 0x92],
        Kind::Suback => &[0x00, 0x01, 0x02, 0x80, 0x83, 0x87, 0x8F, 0x91, 0x97, 0x9E, 0xA1, 0xA2],
        Kind::Unsuback => &[0x00, 0x11, 0x80, 0x83, 0x87, 0x8F, 0x91],
        Kind::Disconnect => &[
            0x00, 0x04, 0x80, 0x81, 0x82, 0x83, 0x87, 0x89, 0x8B, 0x8D, 0x8E, 0x8F, 0x90, 0x93, 0x94,
            0x95, 0x96, 0x97, 0x98, 0x99, 0x9A, 0x9B, 0x9C, 0x9D, 0x9E, 0x9F, 0xA0, 0xA1, 0xA2,
        ],
        Kind::Auth => &[0x00, 0x18, 0x19],
        _ => &[],
    }
}

/// DISCONNECT reason codes a *server* may send (0x04 is client-only).
pub fn server_disconnect_reasons() -> Vec<u8> {
    reason_codes(Kind::Disconnect).iter().copied().filter(|&r| r != 0x04).collect()
}

#[derive(Clone, Debug, PartialEq, Eq, Hash, Serialize, Deserialize)]
pub struct Will {
    pub qos: u8,
    pub retain: bool,
    pub props: Props,
    pub topic: String,
    pub payload: Vec<u8>,
}

#[derive(Clone, Debug, PartialEq, Eq, Hash, Serialize, Deserialize)]
pub struct Connect {
    pub clean_start: bool,
    pub keep_alive: u16,
    pub props: Props,
    pub client_id: String,
    pub will: Option<Will>,
    pub username: Option<String>,
    pub password: Option<Vec<u8>>,
}

#[derive(Clone, Debug, PartialEq, Eq, Hash, Serialize, Deserialize)]
pub struct Connack {
    pub session_present: bool,
    pub reason: u8,
    pub props: Props,
}

#[derive(Clone, Debug, PartialEq, Eq, Hash, Serialize, Deserialize)]
pub struct Publish {
    pub dup: bool,
    pub qos: u8,
    pub retain: bool,
    pub topic: String,
    pub pid: Option<u16>,
    pub props: Props,
    pub payload: Vec<u8>,
}

#[derive(Clone, Debug, PartialEq, Eq, Hash, Serialize, Deserialize)]
pub struct Ack {
    pub pid: u16,
    pub reason: u8,
    pub props: Props,
}

#[derive(Clone, Copy, Debug, PartialEq, Eq, Hash, Serialize, Deserialize, Default)]
pub struct SubOpts {
    pub qos: u8,
    pub no_local: bool,
    pub retain_as_published: bool,
    pub retain_handling: u8,
}

#[derive(Clone, Debug, PartialEq, Eq, Hash, Serialize, Deserialize)]
pub struct Subscribe {
    pub pid: u16,
    pub props: Props,
    pub filters: Vec<(String, SubOpts)>,
}

#[derive(Clone, Debug, PartialEq, Eq, Hash, Serialize, Deserialize)]
pub struct SubAck {
    pub pid: u16,
    pub props: Props,
    pub reasons: Vec<u8>,
}

#[derive(Clone, Debug, PartialEq, Eq, Hash, Serialize, Deserialize)]
pub struct Unsubscribe {
    pub pid: u16,
    pub props: Props,
    pub filters: Vec<String>,
}

#[derive(Clone, Debug, PartialEq, Eq, Hash, Serialize, Deserialize)]
pub struct ReasonProps {
    pub reason: u8,
    pub props: Props,
}

#[derive(Clone, Debug, PartialEq, Eq, Hash, Serialize, Deserialize)]
pub enum Packet {
    Connect(Connect),
    Connack(Connack),
    Publish(Publish),
    Puback(Ack),
    Pubrec(Ack),
    Pubrel(Ack),
    Pubcomp(Ack),
    Subscribe(Subscribe),
    Suback(SubAck),
    Unsubscribe(Unsubscribe),
    Unsuback(SubAck),
    Pingreq,
    Pingresp,
    Disconnect(ReasonProps),
    Auth(ReasonProps),
}

impl Packet {
    pub fn kind(&self) -> Kind {
        match self {
            Packet::Connect(_) => Kind::Connect,
            Packet::Connack(_) => Kind::Connack,
            Packet::Publish(_) => Kind::Publish,
            Packet::Puback(_) => Kind::Puback,
            Packet::Pubrec(_) => Kind::Pubrec,
            Packet::Pubrel(_) => Kind::Pubrel,
            Packet::Pubcomp(_) => Kind::Pubcomp,
            Packet::Subscribe(_) => Kind::Subscribe,
            Packet::Suback(_) => Kind::Suback,
            Packet::Unsubscribe(_) => Kind::Unsubscribe,
            Packet::Unsuback(_) => Kind::Unsuback,
            Packet::Pingreq => Kind::Pingreq,
            Packet::Pingresp => Kind::Pingresp,
            Packet::Disconnect(_) => Kind::Disconnect,
            Packet::Auth(_) => Kind::Auth,
        }
    }
    /// Packet identifier, when the packet has one.
    pub fn pid(&self) -> Option<u16> {
        match self {
            Packet::Publish(p) => p.pid,
            Packet::Puback(a) | Packet::Pubrec(a) | Packet::Pubrel(a) | Packet::Pubcomp(a) => Some(a.pid),
            Packet::Subscribe(s) => Some(s.pid),
            Packet::Suback(s) | Packet::Unsuback(s) => Some(s.pid),
            Packet::Unsubscribe(u) => Some(u.pid),
            _ => None,
        }
    }
}

// ---------------------------------------------------------------------------------------
// Encoding

pub fn put_varint(out: &mut Vec<u8>, mut v: u32) {
    assert!(v <= 268_435_455);
    loop {
        let mut b = (v % 128) as u8;
        v /= 128;
        if v > 0 {
            b |= 0x80;
        }
        out.push(b);
        if v == 0 {
            break;
        }
    }
}

pub fn varint_len(v: u32) -> usize {
    match v {
        0..=127 => 1,
        128..=16383 => 2,
        16384..=2097151 => 3,
        _ => 4,
    }
}

fn put_u16(out: &mut Vec<u8>, v: u16) {
    out.extend_from_slice(&v.to_be_bytes());
}
fn put_u32(out: &mut Vec<u8>, v: u32) {
    out.extend_from_slice(&v.to_be_bytes());
}
fn put_str(out: &mut Vec<u8>, s: &str) {
    assert!(s.len() <= 65535);
    put_u16(out, s.len() as u16);
    out.extend_from_slice(s.as_bytes());
}
fn put_bin(out: &mut Vec<u8>, s: &[u8]) {
    assert!(s.len() <= 65535);
    put_u16(out, s.len() as u16);
    out.extend_from_slice(s);
}

pub fn encode_props_body(props: &Props) -> Vec<u8> {
    let mut body = Vec::new();
    for (id, v) in &props.0 {
        body.push(*id);
        match v {
            PropVal::Byte(b) => body.push(*b),
            PropVal::U16(x) => put_u16(&mut body, *x),
            PropVal::U32(x) => put_u32(&mut body, *x),
            PropVal::VarInt(x) => put_varint(&mut body, *x),
            PropVal::Str(s) => put_str(&mut body, s),
            PropVal::Bin(b) => put_bin(&mut body, b),
            PropVal::Pair(k, w) => {
                put_str(&mut body, k);
                put_str(&mut body, w);
            }
        }
    }
    body
}

fn put_props(out: &mut Vec<u8>, props: &Props) {
    let body = encode_props_body(props);
    put_varint(out, body.len() as u32);
    out.extend_from_slice(&body);
}

/// Which of the forms the standard allows is used for packets that have a short form.
#[derive(Clone, Copy, Debug, PartialEq, Eq, Hash, Serialize, Deserialize, Default)]
pub enum Form {
    /// Full form: reason code and property length always present.
    #[default]
    Full,
    /// Shortest form the standard allows for the content (omits reason 0 / empty properties).
    Shortest,
    /// Reason code present, property length omitted (only legal when there are no properties).
    ReasonOnly,
}

fn frame(first: u8, body: Vec<u8>) -> Vec<u8> {
    let mut out = Vec::with_capacity(body.len() + 5);
    out.push(first);
    put_varint(&mut out, body.len() as u32);
    out.extend_from_slice(&body);
    out
}

pub fn encode(p: &Packet) -> Vec<u8> {
    encode_form(p, Form::Full)
}

pub fn encode_form(p: &Packet, form: Form) -> Vec<u8> {
    match p {
        Packet::Connect(c) => {
            let mut b = Vec::new();
            put_str(&mut b, "MQTT");
            b.push(5);
            let mut flags = 0u8;
            if c.clean_start {
                flags |= 0x02;
            }
            if let Some(w) = &c.will {
                flags |= 0x04 | (w.qos << 3) | ((w.retain as u8) << 5);
            }
            if c.password.is_some() {
                flags |= 0x40;
            }
            if c.username.is_some() {
                flags |= 0x80;
            }
            b.push(flags);
            put_u16(&mut b, c.keep_alive);
            put_props(&mut b, &c.props);
            put_str(&mut b, &c.client_id);
            if let Some(w) = &c.will {
                put_props(&mut b, &w.props);
                put_str(&mut b, &w.topic);
                put_bin(&mut b, &w.payload);
            }
            if let Some(u) = &c.username {
                put_str(&mut b, u);
            }
            if let Some(pw) = &c.password {
                put_bin(&mut b, pw);
            }
            frame(0x10, b)
        }
        Packet::Connack(c) => {
            let mut b = vec![c.session_present as u8, c.reason];
            put_props(&mut b, &c.props);
            frame(0x20, b)
        }
        Packet::Publish(p) => {
            let mut b = Vec::new();
            put_str(&mut b, &p.topic);
            if p.qos > 0 {
                put_u16(&mut b, p.pid.expect("qos>0 publish needs an id"));
            }
            put_props(&mut b, &p.props);
            b.extend_from_slice(&p.payload);
            frame(0x30 | ((p.dup as u8) << 3) | (p.qos << 1) | p.retain as u8, b)
        }
        Packet::Puback(a) => encode_ack(0x40, a, form),
        Packet::Pubrec(a) => encode_ack(0x50, a, form),
        Packet::Pubrel(a) => encode_ack(0x62, a, form),
        Packet::Pubcomp(a) => encode_ack(0x70, a, form),
        Packet::Subscribe(s) => {
            let mut b = Vec::new();
            put_u16(&mut b, s.pid);
            put_props(&mut b, &s.props);
            for (f, o) in &s.filters {
                put_str(&mut b, f);
                b.push(o.qos | ((o.no_local as u8) << 2) | ((o.retain_as_published as u8) << 3) | (o.retain_handling << 4));
            }
            frame(0x82, b)
        }
        Packet::Suback(s) => {
            let mut b = Vec::new();
            put_u16(&mut b, s.pid);
            put_props(&mut b, &s.props);
            b.extend_from_slice(&s.reasons);
            frame(0x90, b)
        }
        Packet::Unsubscribe(u) => {
            let mut b = Vec::new();
            put_u16(&mut b, u.pid);
            put_props(&mut b, &u.props);
            for f in &u.filters {
                put_str(&mut b, f);
            }
            frame(0xA2, b)
        }
        Packet::Unsuback(s) => {
            let mut b = Vec::new();
            put_u16(&mut b, s.pid);
            put_props(&mut b, &s.props);
            b.extend_from_slice(&s.reasons);
            frame(0xB0, b)
        }
        Packet::Pingreq => vec![0xC0, 0x00],
        Packet::Pingresp => vec![0xD0, 0x00],
        Packet::Disconnect(d) => encode_reason_props(0xE0, d, form),
        Packet::Auth(d) => encode_reason_props(0xF0, d, form),
    }
}

fn encode_ack(first: u8, a: &Ack, form: Form) -> Vec<u8> {
    let mut b = Vec::new();
    put_u16(&mut b, a.pid);
    let no_props = a.props.is_empty();
    match form {
        Form::Shortest if a.reason == 0 && no_props => {}
        Form::Shortest | Form::ReasonOnly if no_props => b.push(a.reason),
        _ => {
            b.push(a.reason);
            put_props(&mut b, &a.props);
        }
    }
    frame(first, b)
}

fn encode_reason_props(first: u8, d: &ReasonProps, form: Form) -> Vec<u8> {
    let mut b = Vec::new();
    let no_props = d.props.is_empty();
    match form {
        Form::Shortest if d.reason == 0 && no_props => {}
        // "reason only" exists in the standard for DISCONNECT (remaining length 1); for AUTH
        // callers must not ask for it.
        Form::Shortest | Form::ReasonOnly if no_props && first == 0xE0 => b.push(d.reason),
        _ => {
            b.push(d.reason);
            put_props(&mut b, &d.props);
        }
    }
    frame(first, b)
}

// ---------------------------------------------------------------------------------------
// Decoding (strict)

#[derive(Clone, Debug, PartialEq, Eq)]
pub enum DecodeError {
    /// More bytes are needed to see a whole packet.
    Incomplete,
    Malformed(String),
}

fn mal<T>(s: impl Into<String>) -> Result<T, DecodeError> {
    Err(DecodeError::Malformed(s.into()))
}

struct Cur<'a> {
    b: &'a [u8],
    pos: usize,
}

impl<'a> Cur<'a> {
    fn remaining(&self) -> usize {
        self.b.len() - self.pos
    }
    fn u8(&mut self, what: &str) -> Result<u8, DecodeError> {
        if self.remaining() < 1 {
            return mal(format!("truncated {what}"));
        }
        let v = self.b[self.pos];
        self.pos += 1;
        Ok(v)
    }
    fn u16(&mut self, what: &str) -> Result<u16, DecodeError> {
        if self.remaining() < 2 {
            return mal(format!("truncated {what}"));
        }
        let v = u16::from_be_bytes([self.b[self.pos], self.b[self.pos + 1]]);
        self.pos += 2;
        Ok(v)
    }
    fn u32(&mut self, what: &str) -> Result<u32, DecodeError> {
        if self.remaining() < 4 {
            return mal(format!("truncated {what}"));
        }
        let v = u32::from_be_bytes([
            self.b[self.pos],
            self.b[self.pos + 1],
            self.b[self.pos + 2],
            self.b[self.pos + 3],
        ]);
        self.pos += 4;
        Ok(v)
    }
    fn take(&mut self, n: usize, what: &str) -> Result<&'a [u8], DecodeError> {
        if self.remaining() < n {
            return mal(format!("truncated {what}"));
        }
        let s = &self.b[self.pos..self.pos + n];
        self.pos += n;
        Ok(s)
    }
    fn varint(&mut self, what: &str) -> Result<u32, DecodeError> {
        let mut mult = 1u64;
        let mut val = 0u64;
        for i in 0..4 {
            let b = self.u8(what)?;
            val += (b & 0x7f) as u64 * mult;
            mult *= 128;
            if b & 0x80 == 0 {
                if i > 0 && b == 0 {
                    return mal(format!("non-minimal variable byte integer in {what}"));
                }
                return Ok(val as u32);
            }
        }
        mal(format!("variable byte integer longer than 4 bytes in {what}"))
    }
    fn string(&mut self, what: &str) -> Result<String, DecodeError> {
        let n = self.u16(what)? as usize;
        let raw = self.take(n, what)?;
        match std::str::from_utf8(raw) {
            Ok(s) => {
                if s.contains('\u{0}') {
                    return mal(format!("U+0000 in {what}"));
                }
                Ok(s.to_string())
            }
            Err(_) => mal(format!("invalid UTF-8 in {what}")),
        }
    }
    fn binary(&mut self, what: &str) -> Result<Vec<u8>, DecodeError> {
        let n = self.u16(what)? as usize;
        Ok(self.take(n, what)?.to_vec())
    }
}

fn decode_props(cur: &mut Cur, kind: Kind) -> Result<Props, DecodeError> {
    let what = kind.name();
    let len = cur.varint(&format!("{what} property length"))? as usize;
    if len > cur.remaining() {
        return mal(format!("{what} property length {len} exceeds the {} bytes that follow", cur.remaining()));
    }
    let end = cur.pos + len;
    let mut sub = Cur { b: &cur.b[..end], pos: cur.pos };
    let mut props = Props::new();
    while sub.pos < end {
        // property identifiers are variable byte integers; all defined ones fit in one byte
        let id = sub.u8("property id")?;
        let (ty, kinds, repeat) = match prop_info(id) {
            Some(x) => x,
            None => return mal(format!("{what}: unknown property id 0x{id:02x}")),
        };
        if !kinds.contains(&kind) {
            return mal(format!("{what}: property 0x{id:02x} is not legal in this packet"));
        }
        if !repeat && props.get(id).is_some() {
            return mal(format!("{what}: property 0x{id:02x} appears twice"));
        }
        if id == 0x0B && kind == Kind::Subscribe && props.get(id).is_some() {
            return mal("SUBSCRIBE: subscription identifier appears twice");
        }
        let pw = format!("{what} property 0x{id:02x}");
        let v = match ty {
            PType::Byte => PropVal::Byte(sub.u8(&pw)?),
            PType::U16 => PropVal::U16(sub.u16(&pw)?),
            PType::U32 => PropVal::U32(sub.u32(&pw)?),
            PType::VarInt => PropVal::VarInt(sub.varint(&pw)?),
            PType::Str => PropVal::Str(sub.string(&pw)?),
            PType::Bin => PropVal::Bin(sub.binary(&pw)?),
            PType::Pair => {
                let k = sub.string(&pw)?;
                let w = sub.string(&pw)?;
                PropVal::Pair(k, w)
            }
        };
        // value constraints
        match (id, &v) {
            (0x01 | 0x17 | 0x19 | 0x24 | 0x25 | 0x28 | 0x29 | 0x2A, PropVal::Byte(b)) if *b > 1 => {
                return mal(format!("{pw}: value {b} is not 0 or 1"));
            }
            (0x0B, PropVal::VarInt(0)) => return mal(format!("{pw}: subscription identifier 0")),
            (0x21 | 0x23, PropVal::U16(0)) => return mal(format!("{pw}: value 0 is not allowed")),
            (0x27, PropVal::U32(0)) => return mal(format!("{pw}: value 0 is not allowed")),
            _ => {}
        }
        props.0.push((id, v));
    }
    cur.pos = end;
    Ok(props)
}

fn check_reason(kind: Kind, r: u8) -> Result<(), DecodeError> {
    if reason_codes(kind).contains(&r) {
        Ok(())
    } else {
        mal(format!("{}: reason code 0x{r:02x} is not defined for this packet", kind.name()))
    }
}

/// Decodes the first packet of `bytes`. Returns the packet and the number of bytes it
/// occupies, `Incomplete` if the buffer ends inside the packet.
pub fn decode(bytes: &[u8]) -> Result<(Packet, usize), DecodeError> {
    if bytes.len() < 2 {
        return Err(DecodeError::Incomplete);
    }
    let first = bytes[0];
    // remaining length
    let mut mult = 1u64;
    let mut rl = 0u64;
    let mut hdr = 1usize;
    loop {
        if hdr >= bytes.len() {
            return Err(DecodeError::Incomplete);
        }
        let b = bytes[hdr];
        hdr += 1;
        rl += (b & 0x7f) as u64 * mult;
        mult *= 128;
        if b & 0x80 == 0 {
            if hdr > 2 && b == 0 {
                return mal("non-minimal remaining length");
            }
            break;
        }
        if hdr == 5 {
            return mal("remaining length longer than 4 bytes");
        }
    }
    let rl = rl as usize;
    if bytes.len() < hdr + rl {
        // the type nibble can already be judged
        if Kind::from_nibble(first >> 4).is_none() {
            return mal(format!("reserved packet type {}", first >> 4));
        }
        return Err(DecodeError::Incomplete);
    }
    let total = hdr + rl;
    let kind = match Kind::from_nibble(first >> 4) {
        Some(k) => k,
        None => return mal(format!("reserved packet type {}", first >> 4)),
    };
    let flags = first & 0x0f;
    let expect_flags = match kind {
        Kind::Publish => None,
        Kind::Pubrel | Kind::Subscribe | Kind::Unsubscribe => Some(0x02),
        _ => Some(0x00),
    };
    if let Some(f) = expect_flags {
        if flags != f {
            return mal(format!("{}: fixed header flags 0x{flags:x} (must be 0x{f:x})", kind.name()));
        }
    }
    let mut cur = Cur { b: &bytes[..total], pos: hdr };
    let what = kind.name();
    let packet = match kind {
        Kind::Connect => {
            let name = cur.string("protocol name")?;
            if name != "MQTT" {
                return mal("CONNECT: protocol name is not MQTT");
            }
            if cur.u8("protocol version")? != 5 {
                return mal("CONNECT: protocol version is not 5");
            }
            let fl = cur.u8("connect flags")?;
            if fl & 1 != 0 {
                return mal("CONNECT: reserved flag bit set");
            }
            let will_flag = fl & 0x04 != 0;
            let will_qos = (fl >> 3) & 3;
            let will_retain = fl & 0x20 != 0;
            if will_qos == 3 {
                return mal("CONNECT: will QoS 3");
            }
            if !will_flag && (will_qos != 0 || will_retain) {
                return mal("CONNECT: will QoS/retain set without will flag");
            }
            let keep_alive = cur.u16("keep alive")?;
            let props = decode_props(&mut cur, Kind::Connect)?;
            if props.get(0x16).is_some() && props.get(0x15).is_none() {
                return mal("CONNECT: authentication data without authentication method");
            }
            let client_id = cur.string("client identifier")?;
            let will = if will_flag {
                let wprops = decode_props(&mut cur, Kind::Will)?;
                let topic = cur.string("will topic")?;
                let payload = cur.binary("will payload")?;
                Some(Will { qos: will_qos, retain: will_retain, props: wprops, topic, payload })
            } else {
                None
            };
            let username = if fl & 0x80 != 0 { Some(cur.string("user name")?) } else { None };
            let password = if fl & 0x40 != 0 { Some(cur.binary("password")?) } else { None };
            Packet::Connect(Connect {
                clean_start: fl & 0x02 != 0,
                keep_alive,
                props,
                client_id,
                will,
                username,
                password,
            })
        }
        Kind::Connack => {
            let f = cur.u8("connack flags")?;
            if f > 1 {
                return mal("CONNACK: reserved acknowledge flags set");
            }
            let reason = cur.u8("reason")?;
            check_reason(kind, reason)?;
            let props = decode_props(&mut cur, kind)?;
            Packet::Connack(Connack { session_present: f == 1, reason, props })
        }
        Kind::Publish => {
            let qos = (flags >> 1) & 3;
            if qos == 3 {
                return mal("PUBLISH: QoS 3");
            }
            let dup = flags & 0x08 != 0;
            if qos == 0 && dup {
                return mal("PUBLISH: DUP set with QoS 0");
            }
            let topic = cur.string("topic name")?;
            let pid = if qos > 0 {
                let id = cur.u16("packet identifier")?;
                if id == 0 {
                    return mal("PUBLISH: packet identifier 0");
                }
                Some(id)
            } else {
                None
            };
            let props = decode_props(&mut cur, kind)?;
            let payload = cur.b[cur.pos..total].to_vec();
            cur.pos = total;
            Packet::Publish(Publish { dup, qos, retain: flags & 1 != 0, topic, pid, props, payload })
        }
        Kind::Puback | Kind::Pubrec | Kind::Pubrel | Kind::Pubcomp => {
            let id = cur.u16("packet identifier")?;
            if id == 0 {
                return mal(format!("{what}: packet identifier 0"));
            }
            let (reason, props) = if cur.remaining() == 0 {
                (0, Props::new())
            } else {
                let r = cur.u8("reason")?;
                check_reason(kind, r)?;
                if cur.remaining() == 0 {
                    (r, Props::new())
                } else {
                    (r, decode_props(&mut cur, kind)?)
                }
            };
            let a = Ack { pid: id, reason, props };
            match kind {
                Kind::Puback => Packet::Puback(a),
                Kind::Pubrec => Packet::Pubrec(a),
                Kind::Pubrel => Packet::Pubrel(a),
                _ => Packet::Pubcomp(a),
            }
        }
        Kind::Subscribe => {
            let id = cur.u16("packet identifier")?;
            if id == 0 {
                return mal("SUBSCRIBE: packet identifier 0");
            }
            let props = decode_props(&mut cur, kind)?;
            let mut filters = Vec::new();
            while cur.remaining() > 0 {
                let f = cur.string("topic filter")?;
                let o = cur.u8("subscription options")?;
                if o & 0xC0 != 0 {
                    return mal(format!("SUBSCRIBE: reserved subscription option bits set (0x{o:02x})"));
                }
                let qos = o & 3;
                let rh = (o >> 4) & 3;
                if qos == 3 {
                    return mal("SUBSCRIBE: maximum QoS 3");
                }
                if rh == 3 {
                    return mal("SUBSCRIBE: retain handling 3");
                }
                filters.push((
                    f,
                    SubOpts {
                        qos,
                        no_local: o & 0x04 != 0,
                        retain_as_published: o & 0x08 != 0,
                        retain_handling: rh,
                    },
                ));
            }
            if filters.is_empty() {
                return mal("SUBSCRIBE: no topic filter");
            }
            Packet::Subscribe(Subscribe { pid: id, props, filters })
        }
        Kind::Suback | Kind::Unsuback => {
            let id = cur.u16("packet identifier")?;
            if id == 0 {
                return mal(format!("{what}: packet identifier 0"));
            }
            let props = decode_props(&mut cur, kind)?;
            let reasons = cur.b[cur.pos..total].to_vec();
            cur.pos = total;
            for r in &reasons {
                check_reason(kind, *r)?;
            }
            if reasons.is_empty() {
                return mal(format!("{what}: no reason code"));
            }
            let s = SubAck { pid: id, props, reasons };
            if kind == Kind::Suback {
                Packet::Suback(s)
            } else {
                Packet::Unsuback(s)
            }
        }
        Kind::Unsubscribe => {
            let id = cur.u16("packet identifier")?;
            if id == 0 {
                return mal("UNSUBSCRIBE: packet identifier 0");
            }
            let props = decode_props(&mut cur, kind)?;
            let mut filters = Vec::new();
            while cur.remaining() > 0 {
                filters.push(cur.string("topic filter")?);
            }
            if filters.is_empty() {
                return mal("UNSUBSCRIBE: no topic filter");
            }
            Packet::Unsubscribe(Unsubscribe { pid: id, props, filters })
        }
        Kind::Pingreq => Packet::Pingreq,
        Kind::Pingresp => Packet::Pingresp,
        Kind::Disconnect | Kind::Auth => {
            let (reason, props) = if cur.remaining() == 0 {
                (0, Props::new())
            } else {
                let r = cur.u8("reason")?;
                check_reason(kind, r)?;
                if cur.remaining() == 0 {
                    if kind == Kind::Auth {
                        return mal("AUTH: remaining length 1 (property length missing)");
                    }
                    (r, Props::new())
                } else {
                    (r, decode_props(&mut cur, kind)?)
                }
            };
            if kind == Kind::Auth && !(reason == 0 && props.is_empty()) && props.get(0x15).is_none() {
                return mal("AUTH: authentication method missing");
            }
            let d = ReasonProps { reason, props };
            if kind == Kind::Disconnect {
                Packet::Disconnect(d)
            } else {
                Packet::Auth(d)
            }
        }
        Kind::Will => unreachable!(),
    };
    if cur.pos != total {
        return mal(format!("{what}: {} trailing bytes inside the remaining length", total - cur.pos));
    }
    Ok((packet, total))
}

/// Splits a byte stream into packets; stops at the first malformed or incomplete one.
pub fn decode_stream(bytes: &[u8]) -> (Vec<(usize, usize, Packet)>, Option<(usize, DecodeError)>) {
    let mut out = Vec::new();
    let mut pos = 0;
    while pos < bytes.len() {
        match decode(&bytes[pos..]) {
            Ok((p, n)) => {
                out.push((pos, n, p));
                pos += n;
            }
            Err(e) => return (out, Some((pos, e))),
        }
    }
    (out, None)
}

// ---------------------------------------------------------------------------------------
// Self-test: vectors assembled by hand from the standard + round trips.

pub fn selftest() -> Result<usize, String> {
    let mut n = 0usize;
    let mut expect = |bytes: &[u8], want: Packet| -> Result<(), String> {
        match decode(bytes) {
            Ok((p, used)) if p == want && used == bytes.len() => {}
            other => return Err(format!("decode {:02x?} gave {:?}, want {:?}", bytes, other, want)),
        }
        let enc = encode(&want);
        match decode(&enc) {
            Ok((p, used)) if p == want && used == enc.len() => {}
            other => return Err(format!("round trip of {:?} gave {:?}", want, other)),
        }
        n += 1;
        Ok(())
    };
    // CONNECT from the standard's figure 3-6 style example (clean start, keep alive 10)
    expect(
        &[0x10, 0x0d, 0, 4, b'M', b'Q', b'T', b'T', 5, 0x02, 0, 10, 0, 0, 0],
        Packet::Connect(Connect {
            clean_start: true,
            keep_alive: 10,
            props: Props::new(),
            client_id: String::new(),
            will: None,
            username: None,
            password: None,
        }),
    )?;
    expect(
        &[0x10, 0x10, 0, 4, b'M', b'Q', b'T', b'T', 5, 0x00, 0, 0, 3, 0x21, 0x00, 0x0a, 0, 0],
        Packet::Connect(Connect {
            clean_start: false,
            keep_alive: 0,
            props: Props::new().with(0x21, PropVal::U16(10)),
            client_id: String::new(),
            will: None,
            username: None,
            password: None,
        }),
    )?;
    expect(&[0x20, 0x03, 0x01, 0x00, 0x00], Packet::Connack(Connack { session_present: true, reason: 0, props: Props::new() }))?;
    expect(
        &[0x20, 0x06, 0x00, 0x87, 0x03, 0x21, 0x00, 0x05],
        Packet::Connack(Connack { session_present: false, reason: 0x87, props: Props::new().with(0x21, PropVal::U16(5)) }),
    )?;
    expect(
        &[0x3b, 0x08, 0, 1, b'a', 0x00, 0x07, 0, b'h', b'i'],
        Packet::Publish(Publish { dup: true, qos: 1, retain: true, topic: "a".into(), pid: Some(7), props: Props::new(), payload: b"hi".to_vec() }),
    )?;
    expect(
        &[0x30, 0x07, 0, 1, b'a', 0x03, 0x0b, 0x80, 0x01, /* no payload */],
        Packet::Publish(Publish { dup: false, qos: 0, retain: false, topic: "a".into(), pid: None, props: Props::new().with(0x0b, PropVal::VarInt(128)), payload: vec![] }),
    )?;
    expect(&[0x40, 0x04, 0x12, 0x34, 0x10, 0x00], Packet::Puback(Ack { pid: 0x1234, reason: 0x10, props: Props::new() }))?;
    expect(&[0x62, 0x04, 0x00, 0x01, 0x92, 0x00], Packet::Pubrel(Ack { pid: 1, reason: 0x92, props: Props::new() }))?;
    expect(
        &[0x82, 0x09, 0x00, 0x02, 0x02, 0x0b, 0x05, 0, 1, b'#', 0x2e],
        Packet::Subscribe(Subscribe {
            pid: 2,
            props: Props::new().with(0x0b, PropVal::VarInt(5)),
            filters: vec![("#".into(), SubOpts { qos: 2, no_local: true, retain_as_published: true, retain_handling: 2 })],
        }),
    )?;
    expect(&[0x90, 0x05, 0x00, 0x02, 0x00, 0x01, 0x87], Packet::Suback(SubAck { pid: 2, props: Props::new(), reasons: vec![1, 0x87] }))?;
    expect(&[0xa2, 0x06, 0x00, 0x03, 0x00, 0, 1, b'x'], Packet::Unsubscribe(Unsubscribe { pid: 3, props: Props::new(), filters: vec!["x".into()] }))?;
    expect(&[0xb0, 0x04, 0x00, 0x03, 0x00, 0x11], Packet::Unsuback(SubAck { pid: 3, props: Props::new(), reasons: vec![0x11] }))?;
    expect(&[0xc0, 0x00], Packet::Pingreq)?;
    expect(&[0xd0, 0x00], Packet::Pingresp)?;
    expect(
        &[0xe0, 0x07, 0x04, 0x05, 0x11, 0x00, 0x00, 0x00, 0x00],
        Packet::Disconnect(ReasonProps { reason: 4, props: Props::new().with(0x11, PropVal::U32(0)) }),
    )?;
    expect(
        &[0xf0, 0x0b, 0x18, 0x09, 0x15, 0, 1, b'm', 0x16, 0, 2, 1, 2],
        Packet::Auth(ReasonProps {
            reason: 0x18,
            props: Props::new().with(0x15, PropVal::Str("m".into())).with(0x16, PropVal::Bin(vec![1, 2])),
        }),
    )?;
    // short forms
    let short = |bytes: &[u8], want: Packet| -> Result<(), String> {
        match decode(bytes) {
            Ok((p, used)) if p == want && used == bytes.len() => Ok(()),
            other => Err(format!("short form {:02x?} gave {:?}", bytes, other)),
        }
    };
    short(&[0x40, 0x02, 0x00, 0x09], Packet::Puback(Ack { pid: 9, reason: 0, props: Props::new() }))?;
    short(&[0x50, 0x03, 0x00, 0x09, 0x10], Packet::Pubrec(Ack { pid: 9, reason: 0x10, props: Props::new() }))?;
    short(&[0xe0, 0x00], Packet::Disconnect(ReasonProps { reason: 0, props: Props::new() }))?;
    short(&[0xe0, 0x01, 0x8b], Packet::Disconnect(ReasonProps { reason: 0x8b, props: Props::new() }))?;
    short(&[0xf0, 0x00], Packet::Auth(ReasonProps { reason: 0, props: Props::new() }))?;
    n += 5;
    // must-reject vectors
    let rejects: &[(&[u8], &str)] = &[
        (&[0x10, 0x0d, 0, 4, b'M', b'Q', b'T', b'T', 5, 0x02, 0, 10, 0, 0, 0, 0], "trailing byte is a second (incomplete) packet"),
        (&[0x20, 0x03, 0x02, 0x00, 0x00], "connack flags"),
        (&[0x20, 0x04, 0x00, 0x00, 0x00, 0x00], "trailing byte"),
        (&[0x20, 0x83, 0x00, 0x00, 0x00, 0x00], "non-minimal remaining length"),
        (&[0x36, 0x05, 0, 1, b'a', 0x00, 0x01], "qos 3"),
        (&[0x32, 0x06, 0, 1, b'a', 0x00, 0x00, 0x00], "packet id 0"),
        (&[0x82, 0x07, 0x00, 0x02, 0x00, 0, 1, b'#', 0x40], "reserved subscription option bit"),
        (&[0x82, 0x07, 0x00, 0x02, 0x00, 0, 1, b'#', 0x30], "retain handling 3"),
        (&[0x80, 0x07, 0x00, 0x02, 0x00, 0, 1, b'#', 0x00], "subscribe flags"),
        (&[0x40, 0x04, 0x00, 0x01, 0x00, 0x05], "property length exceeds"),
        (&[0x40, 0x07, 0x00, 0x01, 0x00, 0x03, 0x21, 0x00, 0x05], "receive maximum in puback"),
        (&[0x20, 0x09, 0x00, 0x00, 0x06, 0x21, 0x00, 0x05, 0x21, 0x00, 0x05], "duplicate property"),
        (&[0xf0, 0x02, 0x18, 0x00], "auth without method"),
        (&[0xf0, 0x0a, 0x18, 0x15, 0, 1, b'm', 0x16, 0, 2, 1, 2], "auth without property length"),
        (&[0x10, 0x0e, 0, 4, b'M', b'Q', b'T', b'T', 5, 0x00, 0, 0, 0, 0x21, 0x00, 0x0a], "connect property after zero property length"),
        (&[0x30, 0x05, 0, 1, 0xff, 0x00, 0x00], "invalid utf-8"),
        (&[0x00, 0x00], "reserved type 0"),
    ];
    for (bytes, why) in rejects {
        match decode_stream(bytes) {
            (_, Some((_, _))) => {}
            (pk, None) => return Err(format!("vector accepted although {why}: {:02x?} -> {:?}", bytes, pk)),
        }
        n += 1;
    }
    // varint boundaries
    for v in [0u32, 1, 127, 128, 16383, 16384, 2097151, 2097152, 268435455] {
        let mut out = Vec::new();
        put_varint(&mut out, v);
        if out.len() != varint_len(v) {
            return Err(format!("varint_len({v})"));
        }
        let mut c = Cur { b: &out, pos: 0 };
        if c.varint("t").ok() != Some(v) || c.pos != out.len() {
            return Err(format!("varint round trip {v}"));
        }
        n += 1;
    }
    Ok(n)
}
