//! Oracles: checks over the recorded history. Each returns violations with a stable class
//! string (used by the minimiser and the known-findings file).

use crate::analysis::*;
use crate::refcodec::{self as rc, pid, Kind, Packet};
use crate::scenario::*;
use crate::spec::*;
use crate::world::*;
use std::collections::{BTreeMap, BTreeSet};

#[derive(Clone, Debug, PartialEq, Eq)]
pub struct Violation {
    pub property: &'static str,
    pub class: String,
    pub message: String,
}

fn v(property: &'static str, class: impl Into<String>, message: impl Into<String>) -> Violation {
    Violation { property, class: class.into(), message: message.into() }
}

const DOCUMENTED_ASSERT: &str = "Subscription identifier support is required";

/// Panics other than the documented assertion. The exemption covers what the library
/// documents: a *successful* CONNACK announcing that subscription identifiers are unavailable.
pub fn real_panics(a: &Analysis) -> Vec<&(usize, TaskRef, String)> {
    let documented_case = a.inbound.iter().any(|i| match &i.p.pkt {
        Some(Packet::Connack(c)) => c.reason < 0x80 && c.props.byte(pid::SUBSCRIPTION_ID_AVAILABLE) == Some(0) && i.avail_seq.is_some(),
        // raw (hostile) bytes may contain such a CONNACK; decide by decoding them
        None => true,
        _ => false,
    });
    a.panics.iter().filter(|p| !(p.2.contains(DOCUMENTED_ASSERT) && documented_case)).collect()
}

/// In profiles without hostile input every panic breaks the property under test.
pub fn guard_panics(a: &Analysis, prop: &'static str) -> Vec<Violation> {
    real_panics(a)
        .into_iter()
        .map(|p| v(prop, format!("{prop}/panic/{}", panic_site(&p.2)), format!("{:?} panicked: {}", p.1, p.2)))
        .collect()
}

fn panic_site(msg: &str) -> String {
    // "message @ file:line" -> keep location if present, else the head of the message
    match msg.rsplit_once(" @ ") {
        Some((m, loc)) if !loc.is_empty() => {
            let head: String = m.chars().take(40).collect();
            format!("{loc}/{head}")
        }
        _ => msg.chars().take(60).collect(),
    }
}

/// The acknowledgement that completes `op` (None while not yet sent by the broker).
fn final_ack<'a>(a: &'a Analysis, op: &OpView) -> Option<&'a InView> {
    let acks = a.acks_for(op.idx);
    match &op.spec {
        OpSpec::Publish(p) => match p.qos.unwrap_or(0) {
            1 => acks.into_iter().find(|i| matches!(i.p.ack_for, Some((_, AckKind::Puback)))),
            2 => {
                let rec = acks.iter().find(|i| matches!(i.p.ack_for, Some((_, AckKind::Pubrec)))).copied();
                match rec {
                    Some(r) if matches!(&r.p.pkt, Some(Packet::Pubrec(x)) if x.reason >= 0x80) => Some(r),
                    _ => acks.into_iter().find(|i| matches!(i.p.ack_for, Some((_, AckKind::Pubcomp)))),
                }
            }
            _ => None,
        },
        OpSpec::Subscribe(_) => acks.into_iter().find(|i| matches!(i.p.ack_for, Some((_, AckKind::Suback)))),
        OpSpec::Unsubscribe(_) => acks.into_iter().find(|i| matches!(i.p.ack_for, Some((_, AckKind::Unsuback)))),
        _ => None,
    }
}

fn ack_content(p: &Packet) -> (Vec<u8>, Option<String>, Pairs) {
    match p {
        Packet::Puback(x) | Packet::Pubrec(x) | Packet::Pubcomp(x) | Packet::Pubrel(x) => {
            (vec![x.reason], x.props.str(pid::REASON_STRING).map(str::to_string), x.props.user())
        }
        Packet::Suback(x) | Packet::Unsuback(x) => {
            (x.reasons.clone(), x.props.str(pid::REASON_STRING).map(str::to_string), x.props.user())
        }
        _ => (vec![], None, vec![]),
    }
}

fn locally_refused(op: &OpView) -> bool {
    matches!(op.err(), Some("QuotaExceeded") | Some("MaximumPacketSizeExceeded") | Some("CodecError"))
}

/// What the op must return given its final acknowledgement.
fn expected_outcome(op: &OpView, ack: &Packet) -> OpOutcome {
    let (reasons, rs, user) = ack_content(ack);
    let err = |variant: &str| {
        OpOutcome::Err(ErrDigest {
            variant: variant.into(),
            reason: Some(reasons[0]),
            reason_string: rs.clone(),
            user: user.clone(),
            ..Default::default()
        })
    };
    match (&op.spec, ack) {
        (OpSpec::Publish(_), Packet::Puback(x)) => {
            if x.reason >= 0x80 {
                err("PubackError")
            } else {
                OpOutcome::Done
            }
        }
        (OpSpec::Publish(_), Packet::Pubrec(x)) if x.reason >= 0x80 => err("PubrecError"),
        (OpSpec::Publish(_), Packet::Pubcomp(x)) => {
            if x.reason >= 0x80 {
                err("PubcompError")
            } else {
                OpOutcome::Done
            }
        }
        (OpSpec::Subscribe(_), Packet::Suback(_)) => {
            OpOutcome::Subscribed(AckListDigest { reasons, reason_string: rs, user, flaws: vec![] })
        }
        (OpSpec::Unsubscribe(_), Packet::Unsuback(_)) => {
            OpOutcome::Unsubscribed(AckListDigest { reasons, reason_string: rs, user, flaws: vec![] })
        }
        _ => OpOutcome::Done,
    }
}

fn outcome_matches(got: &OpOutcome, want: &OpOutcome) -> bool {
    match (got, want) {
        (OpOutcome::Err(g), OpOutcome::Err(w)) => {
            g.variant == w.variant && g.reason == w.reason && g.reason_string == w.reason_string && g.user == w.user && g.flaws.is_empty()
        }
        (OpOutcome::Subscribed(g), OpOutcome::Subscribed(w)) | (OpOutcome::Unsubscribed(g), OpOutcome::Unsubscribed(w)) => {
            g.reasons == w.reasons && g.reason_string == w.reason_string && g.user == w.user && g.flaws.is_empty()
        }
        (OpOutcome::Done, OpOutcome::Done) => true,
        _ => false,
    }
}

/// C05 — each operation completes exactly once, with the acknowledgement addressed to it.
/// Sound for runs without transport faults, cancellations of *this* op, or context loss.
pub fn c05(a: &Analysis) -> Vec<Violation> {
    let mut out = Vec::new();
    let quiet_end = a.ctx_gone.is_none() && !a.run_returned() && a.fully_consumed();
    // pings: k-th issued (first poll order) completes on the k-th PINGRESP
    let mut pings: Vec<&OpView> = a.ops.values().filter(|o| matches!(o.spec, OpSpec::Ping) && o.first_poll.is_some() && !locally_refused(o)).collect();
    pings.sort_by_key(|o| o.first_poll.unwrap());
    let pingresps: Vec<&InView> = a.inbound.iter().filter(|i| matches!(i.p.pkt, Some(Packet::Pingresp))).collect();
    // Pairing of pings with PINGRESPs. PINGREQs appear on the wire in submission (first-poll)
    // order. A ping whose future was dropped may or may not have been written (a library may
    // legitimately skip a request nobody waits for), so: if every submitted ping is on the
    // wire, ping #k pairs with PINGRESP #k exactly; otherwise a ping that follows cancelled
    // ones is only required to wait for the earliest PINGRESP it could own.
    let on_wire = a.pings_on_wire();
    let all_written = on_wire >= pings.len();
    // an unsolicited PINGRESP (available before the PINGREQ it would answer was written) may be
    // consumed while no ping is pending; completions are then not attributable
    let pingreqs: Vec<&WirePkt> = a.wire.iter().filter(|w| matches!(w.pkt, Packet::Pingreq)).collect();
    let solicited = pingresps.iter().enumerate().all(|(j, i)| match (i.avail_seq, pingreqs.get(j)) {
        (Some(av), Some(rq)) => rq.seq_last < av,
        (Some(_), None) => false,
        (None, _) => true,
    });
    let mut cancelled_before = 0usize;
    for (k, p) in pings.iter().enumerate() {
        let idx = if all_written { k } else { k - cancelled_before.min(k) };
        if p.cancelled.is_some() && p.ret_seq().is_none() {
            cancelled_before += 1;
            continue;
        }
        if let Some(rs) = p.ret_seq() {
            if p.outcome() != Some(&OpOutcome::Done) && a.ctx_gone.is_none() && !a.run_returned() {
                out.push(v("C05", "C05/wrong-ack/ping", format!("ping op {} returned {:?}", p.idx, p.outcome())));
            }
            match pingresps.get(idx).and_then(|i| i.avail_seq) {
                Some(av) if av < rs => {}
                _ if p.outcome() == Some(&OpOutcome::Done) => out.push(v(
                    "C05",
                    "C05/ping-order",
                    format!("ping op {} (PINGREQ #{idx} at the earliest) completed before PINGRESP #{idx} was available", p.idx),
                )),
                _ => {}
            }
        } else if quiet_end && p.cancelled.is_none() && all_written && solicited {
            // demanded only when the pairing is exact and the answer followed the request
            let req_seq = a.wire.iter().filter(|w| matches!(w.pkt, Packet::Pingreq)).nth(k).map(|w| w.seq_last);
            if let (Some(av), Some(rq)) = (pingresps.get(k).and_then(|i| i.avail_seq), req_seq) {
                if av > rq {
                    out.push(v("C05", "C05/lost-completion/ping", format!("ping op {} never completed although PINGRESP #{k} arrived at {av}", p.idx)));
                }
            }
        }
    }
    for op in a.ops.values() {
        if matches!(op.spec, OpSpec::Ping | OpSpec::Disconnect(_)) {
            continue;
        }
        let needs_ack = !matches!(op.spec.publish_qos(), Some(0));
        if !needs_ack {
            continue;
        }
        if op.returned.len() > 1 {
            out.push(v("C05", "C05/double-complete", format!("op {} returned {} times", op.idx, op.returned.len())));
        }
        let kind = op.spec.kind_name();
        let fin = final_ack(a, op);
        match (op.returned.first(), fin) {
            (Some((rs, got)), _) if locally_refused(op) => {
                let _ = (rs, got);
            }
            (Some((_, OpOutcome::Err(e))), _) if e.variant == "ContextExited" && (a.ctx_gone.is_some() || a.run_returned()) => {}
            (Some((rs, got)), Some(ack)) => {
                match ack.avail_seq {
                    Some(av) if av < *rs => {}
                    _ => out.push(v("C05", format!("C05/early-complete/{kind}"), format!("op {} returned at {} before its acknowledgement was available", op.idx, rs))),
                }
                let want = expected_outcome(op, ack.p.pkt.as_ref().unwrap());
                if !outcome_matches(got, &want) {
                    out.push(v("C05", format!("C05/wrong-ack/{kind}"), format!("op {} returned {:?}, its acknowledgement says {:?}", op.idx, got, want)));
                }
            }
            (Some((rs, got)), None) => {
                out.push(v("C05", format!("C05/completed-without-ack/{kind}"), format!("op {} returned {:?} at {} but its completing acknowledgement was never sent", op.idx, got, rs)));
            }
            (None, Some(ack)) => {
                // a PUBCOMP completes a publish only at the end of a conformant exchange: the
                // broker answered PUBREC first and the PUBREL was written before the PUBCOMP came
                let chain_ok = match ack.p.ack_for {
                    Some((_, AckKind::Pubcomp)) => {
                        let rec = a.acks_for(op.idx).into_iter().find(|i| matches!(i.p.ack_for, Some((_, AckKind::Pubrec)))).and_then(|i| i.avail_seq);
                        let req = a.request_of(op.idx);
                        let rel = req.first().and_then(|wp| {
                            let Packet::Publish(p) = &wp.pkt else { return None };
                            a.wire.iter().find(|x| x.conn == wp.conn && x.off > wp.off && matches!(&x.pkt, Packet::Pubrel(r) if Some(r.pid) == p.pid)).map(|x| x.seq_last)
                        });
                        matches!((rec, rel, ack.avail_seq), (Some(rc), Some(rl), Some(av)) if rc < rl && rl < av)
                    }
                    _ => a.request_of(op.idx).first().map(|wp| Some(wp.seq_last) < ack.avail_seq).unwrap_or(false),
                };
                if quiet_end && chain_ok && op.cancelled.is_none() && op.panicked.is_none() && ack.avail_seq.is_some() && a.request_of(op.idx).len() == 1 {
                    out.push(v("C05", format!("C05/lost-completion/{kind}"), format!("op {} still pending although its acknowledgement arrived", op.idx)));
                }
            }
            (None, None) => {}
        }
    }
    out
}

/// C06 on a resumed session: the outcome a publish() reports is that of a completing
/// acknowledgement addressed to it, whichever connection it arrived on, and a publish whose
/// completing acknowledgement was consumed on the connection still being served is not pending.
pub fn c06_resumed(a: &Analysis) -> Vec<Violation> {
    let mut out = Vec::new();
    let last = a.conns.len().saturating_sub(1);
    let serving = a.ctx_gone.is_none() && a.conns.last().map(|c| c.run_started.is_some() && c.run_returned.is_none() && c.consumed == c.inbound_len && !c.write_blocked_at_end).unwrap_or(false);
    for op in a.ops.values() {
        if !matches!(op.spec.publish_qos(), Some(1) | Some(2)) || locally_refused(op) {
            continue;
        }
        let pubrecs = a.acks_for(op.idx).iter().filter(|i| i.avail_seq.is_some() && matches!(&i.p.pkt, Some(Packet::Pubrec(_)))).count();
        let completing: Vec<&InView> = a
            .acks_for(op.idx)
            .into_iter()
            .filter(|i| i.avail_seq.is_some())
            .filter(|i| match &i.p.pkt {
                Some(Packet::Puback(_)) | Some(Packet::Pubcomp(_)) => true,
                // a failing PUBREC ends the exchange only if it is the broker's one answer to the
                // PUBLISH (the script may answer again after a connection loss it believes ate
                // the first answer; a second, different PUBREC is not a conformant history)
                Some(Packet::Pubrec(x)) => x.reason >= 0x80 && pubrecs == 1,
                _ => false,
            })
            .collect();
        match op.returned.first() {
            Some((_, got)) => {
                // an operation abandoned with an expired session (or by the end of the context)
                // reports ContextExited; whether the session had expired is C17's business
                if got.err_variant() == Some("ContextExited") || completing.is_empty() {
                    continue;
                }
                if !completing.iter().any(|ack| outcome_matches(got, &expected_outcome(op, ack.p.pkt.as_ref().unwrap()))) {
                    out.push(v("C06", "C06/result/resumed-session", format!("op {} returned {:?}, which no acknowledgement addressed to it says", op.idx, got)));
                }
            }
            None => {
                if serving && op.cancelled.is_none() && op.panicked.is_none() && completing.iter().any(|i| i.p.conn == last) {
                    out.push(v("C06", "C06/result/resumed-session/pending", format!("op {} still pending although its completing acknowledgement arrived on the resumed connection", op.idx)));
                }
            }
        }
    }
    out
}

/// C06 — outbound QoS handshake on the wire and reported outcome.
pub fn c06(a: &Analysis) -> Vec<Violation> {
    let mut out = Vec::new();
    // ContextExited is what an operation legitimately reports once the context is gone or
    // run() has returned, and only then
    let ctx_ended = a.ctx_gone.is_some() || a.run_returned();
    let quiet_end = a.ctx_gone.is_none() && !a.run_returned() && a.fully_consumed();
    for op in a.ops.values() {
        let OpSpec::Publish(spec) = &op.spec else { continue };
        let qos = spec.qos.unwrap_or(0);
        let reqs = a.request_of(op.idx);
        let pubs: Vec<&&WirePkt> = reqs.iter().filter(|p| matches!(p.pkt, Packet::Publish(_))).collect();
        if op.first_poll.is_none() {
            if !pubs.is_empty() {
                out.push(v("C06", "C06/publish-count", format!("op {} never polled but on the wire", op.idx)));
            }
            continue;
        }
        if locally_refused(op) {
            if !pubs.is_empty() {
                out.push(v("C06", "C06/publish-count", format!("op {} was refused locally ({:?}) but a PUBLISH was written", op.idx, op.err())));
            }
            continue;
        }
        if pubs.len() > 1 {
            out.push(v("C06", "C06/publish-count", format!("op {}: {} PUBLISH packets", op.idx, pubs.len())));
        }
        if pubs.is_empty() {
            if quiet_end && op.cancelled.is_none() && op.outcome().is_some() {
                out.push(v("C06", "C06/publish-count", format!("op {} returned {:?} without any PUBLISH on the wire", op.idx, op.outcome())));
            }
            continue;
        }
        let wp = pubs[0];
        let Packet::Publish(p) = &wp.pkt else { continue };
        if p.dup {
            out.push(v("C06", "C06/dup-set", format!("op {}: first transmission has DUP=1", op.idx)));
        }
        let want = spec.expected().unwrap();
        if let Err(field) = same_request(&wp.pkt, &want) {
            if field != "dup" {
                out.push(v("C06", format!("C06/field/{field}"), format!("op {}: wire {:?}", op.idx, p)));
            }
        }
        let id = p.pid;
        let acks = a.acks_for(op.idx);
        let find = |k: AckKind| acks.iter().find(|i| matches!(i.p.ack_for, Some((_, kk)) if kk == k)).copied();
        // PUBREL bookkeeping
        let pubrels: Vec<&WirePkt> = a
            .wire
            .iter()
            .filter(|x| x.conn == wp.conn && x.off > wp.off && matches!(&x.pkt, Packet::Pubrel(r) if Some(r.pid) == id))
            .collect();
        match qos {
            0 => {
                if let Some(rs) = op.ret_seq() {
                    if op.outcome() == Some(&OpOutcome::Done) && rs < wp.seq_last {
                        out.push(v("C06", "C06/result/qos0/early", format!("op {} completed before its last byte was written", op.idx)));
                    }
                    if op.outcome() != Some(&OpOutcome::Done) && !(op.err() == Some("ContextExited") && ctx_ended) && op.err() != Some("SocketClosed") {
                        out.push(v("C06", "C06/result/qos0/error", format!("op {} returned {:?}", op.idx, op.outcome())));
                    }
                } else if quiet_end && op.cancelled.is_none() {
                    out.push(v("C06", "C06/result/qos0/pending", format!("op {} written in full but never completed", op.idx)));
                }
                if !pubrels.is_empty() {
                    out.push(v("C06", "C06/pubrel-without-pubrec", format!("op {} (QoS 0)", op.idx)));
                }
            }
            1 => {
                if !pubrels.is_empty() && false {
                    // identifier reuse by a later QoS 2 publish is legal; not checked here
                }
                if let (Some(ack), Some((_, got))) = (find(AckKind::Puback), op.returned.first()) {
                    let Packet::Puback(x) = ack.p.pkt.as_ref().unwrap() else { continue };
                    let class = if x.reason >= 0x80 { "failing" } else { "success" };
                    let want = expected_outcome(op, ack.p.pkt.as_ref().unwrap());
                    if !outcome_matches(got, &want) && !(got.err_variant() == Some("ContextExited") && ctx_ended) {
                        out.push(v("C06", format!("C06/result/qos1/{class}"), format!("op {}: PUBACK reason 0x{:02x} gave {:?}", op.idx, x.reason, got)));
                    }
                }
            }
            _ => {
                let rec = find(AckKind::Pubrec);
                let rec_reason = rec.and_then(|r| match &r.p.pkt {
                    Some(Packet::Pubrec(x)) => Some(x.reason),
                    _ => None,
                });
                match rec_reason {
                    None => {
                        if !pubrels.is_empty() {
                            out.push(v("C06", "C06/pubrel-without-pubrec", format!("op {}: PUBREL written, no PUBREC was sent", op.idx)));
                        }
                    }
                    Some(r) if r >= 0x80 => {
                        if !pubrels.is_empty() {
                            out.push(v("C06", "C06/pubrel-after-failing-pubrec", format!("op {}: PUBREC reason 0x{r:02x}", op.idx)));
                        }
                        if let Some((_, got)) = op.returned.first() {
                            let want = expected_outcome(op, rec.unwrap().p.pkt.as_ref().unwrap());
                            if !outcome_matches(got, &want) && !(got.err_variant() == Some("ContextExited") && ctx_ended) {
                                out.push(v("C06", "C06/result/qos2/failing-pubrec", format!("op {}: got {:?}", op.idx, got)));
                            }
                        }
                    }
                    Some(_) => {
                        let rec = rec.unwrap();
                        if pubrels.len() > 1 {
                            out.push(v("C06", "C06/pubrel-count", format!("op {}: {} PUBREL packets", op.idx, pubrels.len())));
                        }
                        if let Some(first) = pubrels.first() {
                            match rec.avail_seq {
                                Some(av) if av < first.seq_first => {}
                                _ => out.push(v("C06", "C06/pubrel-without-pubrec", format!("op {}: PUBREL written before the PUBREC was available", op.idx))),
                            }
                            if let Packet::Pubrel(r) = &first.pkt {
                                if r.reason != 0 || !r.props.is_empty() {
                                    out.push(v("C06", "C06/field/pubrel-content", format!("op {}: {:?}", op.idx, r)));
                                }
                            }
                        } else if quiet_end && op.cancelled.is_none() && rec.avail_seq.is_some() && op.panicked.is_none() {
                            out.push(v("C06", "C06/pubrel-count", format!("op {}: PUBREC success consumed but no PUBREL was written", op.idx)));
                        }
                        if let (Some(comp), Some((_, got))) = (find(AckKind::Pubcomp), op.returned.first()) {
                            let Packet::Pubcomp(x) = comp.p.pkt.as_ref().unwrap() else { continue };
                            let class = if x.reason >= 0x80 { "failing-pubcomp" } else { "success" };
                            let want = expected_outcome(op, comp.p.pkt.as_ref().unwrap());
                            if !outcome_matches(got, &want) && !(got.err_variant() == Some("ContextExited") && ctx_ended) {
                                out.push(v("C06", format!("C06/result/qos2/{class}"), format!("op {}: PUBCOMP reason 0x{:02x} gave {:?}", op.idx, x.reason, got)));
                            }
                        }
                    }
                }
            }
        }
    }
    out
}

fn subid_state(i: &InView) -> &'static str {
    match i.p.subs.first() {
        None => "absent",
        Some(SubRef::Raw(_)) => "unknown",
        Some(SubRef::Op(_)) => "registered",
    }
}

/// C08 — every inbound QoS>0 PUBLISH and PUBREL is acknowledged exactly once, in order.
/// Exact at the end of fault-free runs in which everything injected was consumed.
pub fn c08(a: &Analysis) -> Vec<Violation> {
    c08_in(a, None)
}

/// With the scenario at hand the oracle also knows whether `run()` had a reason to end: a packet
/// it consumed before ending for no reason (no DISCONNECT, fault, undecodable input or handle
/// loss) arrived "while run() was serving" and must have been acknowledged.
pub fn c08_in(a: &Analysis, sc: Option<&Scenario>) -> Vec<Violation> {
    let mut out = Vec::new();
    for (c, conn) in a.conns.iter().enumerate() {
        if conn.run_started.is_none() {
            continue;
        }
        let expected: Vec<(Kind, u16, &InView)> = a
            .inbound
            .iter()
            .filter(|i| i.p.conn == c)
            .filter_map(|i| match &i.p.pkt {
                Some(Packet::Publish(p)) if p.qos == 1 => Some((Kind::Puback, p.pid.unwrap(), i)),
                Some(Packet::Publish(p)) if p.qos == 2 => Some((Kind::Pubrec, p.pid.unwrap(), i)),
                Some(Packet::Pubrel(r)) => Some((Kind::Pubcomp, r.pid, i)),
                _ => None,
            })
            .collect();
        let got: Vec<(Kind, u16, &WirePkt)> = a.acks(c).into_iter().map(|w| (w.pkt.kind(), w.pkt.pid().unwrap(), w)).collect();
        let complete = conn.run_returned.is_none() && a.ctx_gone.is_none() && conn.consumed == conn.inbound_len && conn.read_end_seen.is_none() && conn.write_fault_seen.is_none() && !conn.write_blocked_at_end;
        for k in 0..got.len().max(expected.len()) {
            match (expected.get(k), got.get(k)) {
                (Some(e), Some(g)) => {
                    if e.0 != g.0 || e.1 != g.1 {
                        // decide between missing / extra / wrong id
                        let class = if got.iter().skip(k).any(|x| x.0 == e.0 && x.1 == e.1) {
                            "C08/ack-order".to_string()
                        } else if e.0 == g.0 {
                            "C08/wrong-id".to_string()
                        } else {
                            let what = match e.0 {
                                Kind::Puback => "qos1",
                                Kind::Pubrec => "qos2",
                                _ => "pubrel",
                            };
                            format!("C08/no-ack/{what}/{}", subid_state(e.2))
                        };
                        out.push(v("C08", class, format!("position {k}: expected {:?} id {}, wire has {:?} id {}", e.0, e.1, g.0, g.1)));
                        break;
                    }
                    if let Some(av) = e.2.avail_seq {
                        if g.2.seq_first < av && false {
                            out.push(v("C08", "C08/extra-ack", "acknowledgement before the packet arrived"));
                        }
                    }
                }
                (Some(e), None) => {
                    let ended_for_nothing = conn.run_returned.is_some() && a.ctx_gone.is_none() && sc.map(|sc| causes(a, sc, c).is_empty()).unwrap_or(false) && e.2.p.end <= conn.consumed;
                    if complete || ended_for_nothing {
                        let what = match e.0 {
                            Kind::Puback => "qos1",
                            Kind::Pubrec => "qos2",
                            _ => "pubrel",
                        };
                        out.push(v("C08", format!("C08/no-ack/{what}/{}", subid_state(e.2)), format!("inbound #{} ({:?} id {}) was consumed but never acknowledged", e.2.p.idx, e.0, e.1)));
                    }
                    break;
                }
                (None, Some(g)) => {
                    out.push(v("C08", "C08/extra-ack", format!("unexpected {:?} id {} on the wire", g.0, g.1)));
                    break;
                }
                (None, None) => {}
            }
        }
    }
    out
}

/// Expected items per stream (C07 with the C09 re-delivery model built in): inbound PUBLISH
/// packets carrying the stream's subscription identifier, in arrival order, minus QoS 2
/// re-deliveries (identifier received and not yet released).
fn expected_items(a: &Analysis, multi_ok: bool) -> BTreeMap<usize, Vec<(usize, MessageDigest, bool)>> {
    let mut exp: BTreeMap<usize, Vec<(usize, MessageDigest, bool)>> = BTreeMap::new();
    let mut unreleased: BTreeSet<u16> = BTreeSet::new();
    let mut conn_seen = 0usize;
    for i in &a.inbound {
        if i.p.conn != conn_seen {
            conn_seen = i.p.conn;
            // a session that expired takes its record of unreleased identifiers with it: on the
            // new session the same identifier belongs to a new message
            if session_carried(a, conn_seen) == Some(false) {
                unreleased.clear();
            }
        }
        // only what the client actually consumed counts (a connection may have been cut)
        if i.avail_seq.is_none() || a.conns[i.p.conn].consumed < i.p.end {
            continue;
        }
        match &i.p.pkt {
            Some(Packet::Publish(p)) => {
                let redelivery = p.qos == 2 && unreleased.contains(&p.pid.unwrap());
                if p.qos == 2 {
                    unreleased.insert(p.pid.unwrap());
                }
                if redelivery {
                    continue;
                }
                let multi = i.p.subs.len() > 1;
                for s in &i.p.subs {
                    if let SubRef::Op(op) = s {
                        if multi && !multi_ok {
                            continue;
                        }
                        exp.entry(*op).or_default().push((i.p.idx, message_expected(p), multi));
                    }
                }
            }
            Some(Packet::Pubrel(r)) => {
                unreleased.remove(&r.pid);
            }
            _ => {}
        }
    }
    exp
}

fn first_content_diff(got: &MessageDigest, want: &MessageDigest) -> Option<&'static str> {
    if !got.flaws.is_empty() {
        return Some("user-properties-accessors");
    }
    if got.topic != want.topic {
        return Some("topic_name");
    }
    if got.payload != want.payload {
        return Some("payload");
    }
    if got.qos != want.qos {
        return Some("qos");
    }
    if got.dup != want.dup {
        return Some("dup");
    }
    if got.retain != want.retain {
        return Some("retain");
    }
    if got.payload_format != want.payload_format {
        return Some("payload_format_indicator");
    }
    if got.topic_alias != want.topic_alias {
        return Some("topic_alias");
    }
    if got.message_expiry != want.message_expiry {
        return Some("message_expiry_interval");
    }
    if got.correlation_data != want.correlation_data {
        return Some("correlation_data");
    }
    if got.response_topic != want.response_topic {
        return Some("response_topic");
    }
    if got.content_type != want.content_type {
        return Some("content_type");
    }
    if got.user != want.user {
        return Some("user_properties");
    }
    None
}

/// C07 (and, through the re-delivery model, C09): items per stream.
pub fn streams_check(a: &Analysis, prop: &'static str) -> Vec<Violation> {
    let mut out = Vec::new();
    let exp = expected_items(a, true);
    // the connection being served at the end decides whether everything had its chance to
    // arrive (earlier connections of the same Context were lost; what they left unconsumed is
    // not expected in the first place)
    let complete = a.ctx_gone.is_none()
        && a.conns.last().map(|c| c.run_started.is_some() && c.run_returned.is_none() && c.consumed == c.inbound_len && !c.write_blocked_at_end).unwrap_or(false)
        && (a.conns.len() > 1 || a.fully_consumed());
    for (sub, sv) in &a.streams {
        if sv.opened.is_none() {
            continue;
        }
        let want: Vec<&(usize, MessageDigest, bool)> = exp.get(sub).map(|x| x.iter().collect()).unwrap_or_default();
        let got = &sv.items;
        for k in 0..got.len().max(want.len()) {
            match (want.get(k), got.get(k)) {
                (Some(w), Some(g)) => {
                    if let Some(field) = first_content_diff(&g.1, &w.1) {
                        // is it a different message altogether?
                        if g.1.topic != w.1.topic || g.1.payload != w.1.payload {
                            let appears_later = want.iter().skip(k).any(|x| x.1.topic == g.1.topic && x.1.payload == g.1.payload);
                            let seen_before = want.iter().take(k).any(|x| x.1.topic == g.1.topic && x.1.payload == g.1.payload);
                            let class = if seen_before {
                                if prop == "C09" { "C09/duplicate-delivery".to_string() } else { "C07/extra-item/duplicate".to_string() }
                            } else if appears_later {
                                let how = if w.2 { "multi-id" } else { "single" };
                                format!("{prop}/missing-item/{how}")
                            } else {
                                format!("{prop}/extra-item")
                            };
                            out.push(v(prop, class, format!("stream {sub} item {k}: got {}/{:?}, expected {}/{:?}", g.1.topic, String::from_utf8_lossy(&g.1.payload[..g.1.payload.len().min(12)]), w.1.topic, String::from_utf8_lossy(&w.1.payload[..w.1.payload.len().min(12)]))));
                        } else {
                            out.push(v(prop, format!("{prop}/content/{field}"), format!("stream {sub} item {k} ({})", w.1.topic)));
                        }
                        break;
                    }
                }
                (Some(w), None) => {
                    if complete && sv.dropped.is_none() && sv.ended.is_none() && a.live_at_end.contains(&TaskRef::Consumer(*sub)) {
                        let how = if w.2 { "multi-id" } else { "single" };
                        out.push(v(prop, format!("{prop}/missing-item/{how}"), format!("stream {sub}: message {} (inbound #{}) never yielded", w.1.topic, w.0)));
                    }
                    break;
                }
                (None, Some(g)) => {
                    let dup = got.iter().take(k).any(|x| x.1.topic == g.1.topic && x.1.payload == g.1.payload);
                    let class = if dup {
                        if prop == "C09" { "C09/duplicate-delivery".to_string() } else { "C07/extra-item/duplicate".to_string() }
                    } else {
                        format!("{prop}/extra-item")
                    };
                    out.push(v(prop, class, format!("stream {sub} item {k}: unexpected {}", g.1.topic)));
                    break;
                }
                (None, None) => {}
            }
        }
        if let Some(e) = sv.ended {
            match a.ctx_gone {
                Some(g) if g < e => {}
                _ => out.push(v(prop, format!("{prop}/early-end"), format!("stream {sub} ended at {e} while the context is alive"))),
            }
        }
    }
    out
}

/// C09 additionally: a re-delivery must still be answered with PUBREC — covered by the
/// acknowledgement sequence (shared with C08) restricted to QoS 2.
pub fn c09(a: &Analysis) -> Vec<Violation> {
    let mut out = streams_check(a, "C09");
    // keep only the classes C09 owns
    out.retain(|x| x.class.starts_with("C09/duplicate-delivery") || x.class.starts_with("C09/missing-item") || x.class.starts_with("C09/extra-item"));
    for x in out.iter_mut() {
        if x.class.starts_with("C09/missing-item") {
            x.class = "C09/missing-after-release".into();
        }
    }
    for viol in c08(a) {
        if viol.class.starts_with("C08/no-ack/qos2") {
            out.push(v("C09", "C09/no-pubrec-on-redelivery", viol.message));
        }
    }
    out
}

pub fn c07(a: &Analysis) -> Vec<Violation> {
    let mut out = streams_check(a, "C07");
    // items that only come out when the stream is polled without a wake-up are lost to a
    // wake-only executor
    for sp in &a.sweep_progress {
        if let TaskRef::Consumer(s) = sp.1 {
            out.push(v("C07", "C07/missing-item/lost-wakeup", format!("stream {s} yielded or ended only when polled without a wake-up: {}", sp.2)));
        }
    }
    out
}

/// Receive Maximum announced on connection `conn`.
fn receive_max(a: &Analysis, conn: usize) -> usize {
    a.inbound
        .iter()
        .find_map(|i| match &i.p.pkt {
            Some(Packet::Connack(c)) if i.p.conn == conn => Some(c.props.u16(pid::RECEIVE_MAXIMUM).unwrap_or(65535) as usize),
            _ => None,
        })
        .unwrap_or(65535)
}

fn is_completion(p: &Packet) -> bool {
    match p {
        Packet::Puback(_) | Packet::Pubcomp(_) => true,
        Packet::Pubrec(a) => a.reason >= 0x80,
        _ => false,
    }
}

/// Time since the recorded disconnection as `run()` on connection `c` sees it: the `elapsed` of
/// the reconnect plus whatever the simulated clock advanced before `run()` started.
pub fn effective_elapsed(a: &Analysis, c: usize) -> Option<u64> {
    let at = a.events.iter().position(|e| matches!(e, Ev::Resumed { conn, .. } if *conn == c))?;
    let Ev::Resumed { elapsed, .. } = &a.events[at] else { return None };
    let mut total = *elapsed;
    for e in &a.events[at + 1..] {
        match e {
            Ev::ClockAdvanced { secs } => total = total.saturating_add(*secs),
            Ev::RunStarted { conn } if *conn == c => break,
            _ => {}
        }
    }
    Some(total)
}

/// Some(true): connection c resumed an unexpired session; Some(false): first connection, or the
/// session had expired (nothing is carried over; an old exchange continuing belongs to a session
/// the server no longer has); None: too close to the expiry instant to say.
pub fn session_carried(a: &Analysis, c: usize) -> Option<bool> {
    if c == 0 {
        return Some(false);
    }
    match effective_elapsed(a, c) {
        None => Some(false),
        Some(elapsed) => {
            let e = session_expiry(a, c - 1);
            // only the instant of expiry itself is unspecified
            if e != 0 && e != u32::MAX as u64 && elapsed == e {
                None
            } else {
                Some(!(e == 0 || (e != u32::MAX as u64 && elapsed > e)))
            }
        }
    }
}

/// Packets that occupy a Receive Maximum slot on connection `c`, in wire order; the flag says
/// "carried over" (re-sent PUBLISH, or PUBREL of an exchange begun on an earlier connection).
/// What occupies a slot on connection `c`: (sequence number from which, packet identifier,
/// carried over from an earlier connection, marker of the operation if the packet has one).
#[derive(Clone, Copy)]
struct Taker {
    seq: usize,
    pid: u16,
    carried: bool,
    marker: Option<usize>,
}

fn slot_takers(a: &Analysis, c: usize) -> Vec<Taker> {
    let mut out: Vec<Taker> = Vec::new();
    let carried_session = session_carried(a, c);
    if carried_session.is_none() {
        return out;
    }
    let carried_session = carried_session.unwrap();
    // exchanges that are *between their phases* when connection c begins: a QoS 2 PUBLISH of
    // the previous connection whose successful PUBREC the client consumed and whose PUBREL was
    // never written there. Whether or not the caller ever submits that PUBREL (it may have
    // abandoned the future), the PUBLISH is sent and not completed: it holds its slot from the
    // first moment of the resumed connection.
    let mut between: Vec<u16> = Vec::new();
    if carried_session && c > 0 {
        let prev = c - 1;
        for w in a.wire.iter().filter(|w| w.conn == prev) {
            if let Packet::Publish(x) = &w.pkt {
                if x.qos == 2 {
                    let id = x.pid.unwrap_or(0);
                    let rec_ok = a.inbound.iter().any(|i| {
                        i.p.conn == prev
                            && matches!(&i.p.pkt, Some(Packet::Pubrec(r)) if r.pid == id && r.reason < 0x80)
                            && i.avail_seq.map(|av| av > w.seq_first).unwrap_or(false)
                            && a.conns[prev].consumed >= i.p.end
                    });
                    let rel_there = a.wire.iter().any(|y| y.conn == prev && y.off > w.off && matches!(&y.pkt, Packet::Pubrel(r) if r.pid == id));
                    if rec_ok && !rel_there {
                        between.push(id);
                    }
                }
            }
        }
        let start = a.conns[c].connect_started.unwrap_or(0);
        for id in &between {
            out.push(Taker { seq: start, pid: *id, carried: true, marker: None });
        }
    }
    for w in a.wire.iter().filter(|w| w.conn == c) {
        match &w.pkt {
            Packet::Publish(x) if x.qos > 0 => out.push(Taker { seq: w.seq_first, pid: x.pid.unwrap_or(0), carried: x.dup, marker: marker_of(&w.pkt) }),
            Packet::Pubrel(r) => {
                let rec_here = a.inbound.iter().any(|i| {
                    i.p.conn == c && matches!(&i.p.pkt, Some(Packet::Pubrec(x)) if x.pid == r.pid) && matches!(i.avail_seq, Some(av) if av < w.seq_first)
                });
                let pub_here = a.wire.iter().any(|x| x.conn == c && x.off < w.off && matches!(&x.pkt, Packet::Publish(pp) if pp.pid == Some(r.pid) && pp.qos == 2));
                // (an exchange counted as "between its phases" above already holds its slot)
                if !rec_here && !pub_here && carried_session && !between.contains(&r.pid) {
                    out.push(Taker { seq: w.seq_first, pid: r.pid, carried: true, marker: None });
                }
            }
            _ => {}
        }
    }
    out
}

/// C10 — Receive Maximum. `probe_from`: index of the first op of the quota probe epilogue.
pub fn c10(a: &Analysis, probe_from: Option<usize>) -> Vec<Violation> {
    let mut out = Vec::new();
    let multi = a.conns.len() > 1;
    for c in 0..a.conns.len() {
        let r = receive_max(a, c);
        // (a) safety, broker view. What occupies a slot on connection c: every QoS>0 PUBLISH
        // written on it, first transmissions and re-sent ones (DUP=1) alike, and every exchange
        // carried over from an earlier connection in its second phase (a PUBREL written on c
        // whose PUBREC did not arrive on c). Only a *new* PUBLISH can be a violation: what a
        // resumed session must re-send is not the library's choice.
        let takers = slot_takers(a, c);
        let carried = takers.iter().filter(|t| t.carried).count();
        if carried > r {
            continue; // the broker lowered R below what the session already has in flight
        }
        // replay takers and completions in sequence order; a completion frees the slot of the
        // exchange bearing its identifier (and nothing if no such exchange holds a slot here)
        let mut events: Vec<(usize, Option<(usize, bool)>, u16)> = Vec::new(); // (seq, taker(index, carried) | completion, pid)
        for (n, t) in takers.iter().enumerate() {
            events.push((t.seq, Some((n, t.carried)), t.pid));
        }
        for i in a.inbound.iter().filter(|i| i.p.conn == c && i.p.pkt.as_ref().map(is_completion).unwrap_or(false)) {
            if let (Some(av), Some(id)) = (i.avail_seq, i.p.pkt.as_ref().and_then(|p| p.pid())) {
                events.push((av, None, id));
            }
        }
        events.sort_by_key(|e| (e.0, e.1.is_some()));
        let mut held: Vec<u16> = Vec::new();
        // an acknowledgement that overtakes the re-send it answers (the server acknowledged the
        // original transmission) completes the carried exchange all the same
        let mut early: Vec<u16> = Vec::new();
        for (_, what, id) in events {
            match what {
                None => {
                    if let Some(pos) = held.iter().position(|x| *x == id) {
                        held.remove(pos);
                    } else {
                        early.push(id);
                    }
                }
                Some((n, is_carried)) => {
                    if is_carried {
                        if let Some(pos) = early.iter().position(|x| *x == id) {
                            early.remove(pos);
                            continue;
                        }
                    }
                    held.push(id);
                    if !is_carried && held.len() > r {
                        let class = if carried > 0 { "C10/exceeded/resumed-session" } else { "C10/exceeded" };
                        out.push(v("C10", class, format!("PUBLISH #{n} written with {} outstanding ({carried} carried over from the previous connection), Receive Maximum {r}", held.len())));
                        break;
                    }
                }
            }
        }
    }
    let r = receive_max(a, 0);
    // (c) spurious refusal / (d) others never limited
    for op in a.ops.values() {
        if op.err() == Some("QuotaExceeded") {
            let qos = op.spec.publish_qos();
            if qos.is_none() || qos == Some(0) {
                out.push(v("C10", "C10/qos0-limited", format!("op {} ({}) refused with QuotaExceeded", op.idx, op.spec.kind_name())));
                continue;
            }
            if probe_from.map(|f| op.idx >= f).unwrap_or(false) {
                continue;
            }
            if multi {
                continue; // exactness across connections is judged by the probe epilogue (b)
            }
            // impossible-for-any-serial-order test
            let fp = op.first_poll.unwrap_or(0);
            let rs = op.ret_seq().unwrap();
            let written = a.wire.iter().filter(|p| matches!(&p.pkt, Packet::Publish(x) if x.qos > 0 && !x.dup) && p.seq_first < rs).count();
            let surely_done = a
                .ops
                .values()
                .filter(|o| o.idx != op.idx && matches!(o.spec.publish_qos(), Some(1) | Some(2)))
                .filter(|o| matches!(o.ret_seq(), Some(x) if x < fp) && !locally_refused(o) && a.request_of(o.idx).len() == 1 && o.err() != Some("ContextExited"))
                .count();
            if written.saturating_sub(surely_done) < r {
                out.push(v("C10", "C10/spurious-refusal", format!("op {} refused although at most {} of {r} slots can have been in use", op.idx, written.saturating_sub(surely_done))));
            }
        }
    }
    // (b) exactness at quiescence: probe epilogue
    if let Some(first) = probe_from {
        let probes: Vec<&OpView> = a.ops.values().filter(|o| o.idx >= first).collect();
        // (the probe runs on the connection served last; earlier ones may have been lost)
        if !probes.is_empty() && a.ctx_gone.is_none() && a.conns.last().map(|c| c.run_returned.is_none()).unwrap_or(false) {
            // the probe runs on the last connection: slots in use there, carried-over ones included
            let last = a.conns.len().saturating_sub(1);
            let r = receive_max(a, last);
            let mut held: Vec<u16> = Vec::new();
            {
                let mut carried_ids: Vec<u16> = Vec::new();
                let mut events: Vec<(usize, bool, u16)> = Vec::new();
                for t in slot_takers(a, last).iter().filter(|t| t.marker.map(|m| m < first).unwrap_or(true)) {
                    events.push((t.seq, true, t.pid));
                    if t.carried {
                        carried_ids.push(t.pid);
                    }
                }
                for i in a.inbound.iter().filter(|i| i.p.conn == last && i.p.pkt.as_ref().map(is_completion).unwrap_or(false)) {
                    if let (Some(av), Some(id)) = (i.avail_seq, i.p.pkt.as_ref().and_then(|p| p.pid())) {
                        events.push((av, false, id));
                    }
                }
                events.sort_by_key(|e| (e.0, e.1));
                let mut early: Vec<u16> = Vec::new();
                for (_, taker, id) in events {
                    if taker {
                        if carried_ids.contains(&id) {
                            if let Some(pos) = early.iter().position(|x| *x == id) {
                                early.remove(pos);
                                continue;
                            }
                        }
                        held.push(id);
                    } else if let Some(pos) = held.iter().position(|x| *x == id) {
                        held.remove(pos);
                    } else {
                        early.push(id);
                    }
                }
            }
            // (a CONNACK that lowers R below what the resumed session already has in flight:
            // not judged, as in (a))
            if slot_takers(a, last).iter().filter(|t| t.carried).count() > r {
                return out;
            }
            let free = r.saturating_sub(held.len());
            let accepted = probes.iter().filter(|o| a.request_of(o.idx).len() == 1).count();
            let refused = probes.iter().filter(|o| o.err() == Some("QuotaExceeded")).count();
            if probes.len() == free + 1 {
                if accepted < free {
                    // which completion kinds occurred in the run? (names the leak)
                    let mut kinds = BTreeSet::new();
                    for i in &a.inbound {
                        match &i.p.pkt {
                            Some(Packet::Puback(_)) => kinds.insert("puback"),
                            Some(Packet::Pubcomp(_)) => kinds.insert("pubcomp"),
                            Some(Packet::Pubrec(x)) if x.reason >= 0x80 => kinds.insert("failing-pubrec"),
                            _ => false,
                        };
                    }
                    let k = if kinds.contains("failing-pubrec") { "failing-pubrec" } else if kinds.contains("pubcomp") { "pubcomp" } else if kinds.contains("puback") { "puback" } else { "none" };
                    out.push(v("C10", format!("C10/leak/{k}"), format!("at quiescence {free} of {r} slots must be free, only {accepted} publishes were accepted")));
                } else if accepted > free || refused != 1 {
                    out.push(v("C10", "C10/overflow", format!("at quiescence {free} slots free, {accepted} publishes accepted, {refused} refused")));
                }
            }
        }
    }
    out
}

/// Shared invariant (reported under C13): without a terminating cause `run()` keeps serving.
pub fn c13_no_cause(a: &Analysis) -> Vec<Violation> {
    let mut out = Vec::new();
    for (c, conn) in a.conns.iter().enumerate() {
        if let Some((seq, res)) = &conn.run_returned {
            out.push(v(
                "C13",
                "C13/run-returned-without-cause",
                format!("connection {c}: run() returned {:?} at {seq} although nothing terminated the connection", res.as_ref().map_err(|e| (&e.variant, &e.text))),
            ));
        }
    }
    for p in real_panics(a) {
        if p.1 == TaskRef::Ctx {
            out.push(v("C13", "C13/run-returned-without-cause", format!("context task panicked: {}", p.2)));
        }
    }
    out
}

/// Panics, stalls and hangs (C04's oracle; also applied as a guard elsewhere).
pub fn c04(a: &Analysis) -> Vec<Violation> {
    let mut out = Vec::new();
    for p in real_panics(a) {
        out.push(v("C04", format!("C04/panic/{}", panic_site(&p.2)), format!("{:?} panicked: {}", p.1, p.2)));
    }
    for s in &a.stalls {
        let phase = "stall";
        out.push(v("C04", format!("C04/{phase}/unread-input"), format!("quiescent at {} with {}", s.0, s.1)));
    }
    if a.settle_overrun {
        out.push(v("C04", "C04/stall/busy-loop", "tasks kept waking each other beyond the settle bound"));
    }
    // liveness ping (only appended to cases whose inbound bytes are all well-formed packets):
    // if run() neither returned nor died, it must still be serving
    if let Some(op) = a.ops.get(&crate::hostile::LIVENESS_PING) {
        let conn = a.conns.last();
        let serving = a.ctx_gone.is_none() && conn.map(|c| c.run_started.is_some() && c.run_returned.is_none() && c.read_end_seen.is_none() && c.write_fault_seen.is_none() && !c.write_blocked_at_end && c.consumed == c.inbound_len).unwrap_or(false);
        let earlier_pings = a.ops.values().filter(|o| matches!(o.spec, OpSpec::Ping) && o.idx != op.idx && o.first_poll.is_some() && o.outcome().is_none()).count();
        if serving && op.first_poll.is_some() && op.outcome().is_none() && earlier_pings <= 1 {
            out.push(v("C04", "C04/stall/not-serving", format!("well-formed input was consumed, run() is pending, but a ping issued afterwards never completes ({} bytes consumed)", conn.map(|c| c.consumed).unwrap_or(0))));
        }
    }
    // after end-of-stream / read error was reported, the serving call must have returned
    for (c, conn) in a.conns.iter().enumerate() {
        if let Some(end) = conn.read_end_seen {
            let returned = match (&conn.run_started, &conn.run_returned, &conn.connect_returned) {
                (Some(_), Some(_), _) => true,
                (Some(_), None, _) => false,
                (None, _, Some(_)) => true,
                (None, _, None) => false,
            };
            let ctx_panicked = a.panics.iter().any(|p| p.1 == TaskRef::Ctx);
            if !returned && !ctx_panicked && a.ctx_dropped.is_none() {
                out.push(v("C04", "C04/hang-after-fault/read-end", format!("connection {c}: transport ended at {end} but connect()/run() is still pending")));
            }
        }
    }
    out
}

/// No lost wake-ups / no effect of spurious polls, as seen in a single wake-only run.
pub fn c16_single(a: &Analysis) -> Vec<Violation> {
    let mut out = Vec::new();
    for s in &a.sweep_progress {
        let kind = match s.1 {
            TaskRef::Ctx => "context",
            TaskRef::Op(_) => "operation",
            TaskRef::Consumer(_) => "stream",
        };
        out.push(v("C16", format!("C16/sweep-progress/{kind}"), format!("polling {:?} without wake-up at {}: {}", s.1, s.0, s.2)));
    }
    for s in &a.stalls {
        out.push(v("C16", "C16/sweep-progress/context", format!("lost wake-up: quiescent at {} with {}", s.0, s.1)));
    }
    out
}

/// Projection of everything observable, used by the differential oracles (C03, C16).
#[derive(Clone, Debug, PartialEq, Eq)]
pub struct Observable {
    pub requests: Vec<Vec<Packet>>,
    /// PUBREL packets, sorted: their position among the requests depends on when the PUBREC
    /// arrived and when the publish future was polled, which is timing, not framing.
    pub pubrels: Vec<Vec<u16>>,
    pub acks: Vec<Vec<Packet>>,
    pub ops: Vec<(usize, Option<OpOutcome>)>,
    pub streams: BTreeMap<usize, (Vec<MessageDigest>, bool)>,
    pub connects: Vec<Option<ConnectOutcome>>,
    pub runs: Vec<Option<Result<(), ErrDigest>>>,
    pub panics: Vec<String>,
}

pub fn observable(a: &Analysis) -> Observable {
    Observable {
        requests: (0..a.conns.len())
            .map(|c| a.requests(c).into_iter().filter(|p| !matches!(p.pkt, Packet::Pubrel(_))).map(|p| p.pkt.clone()).collect())
            .collect(),
        pubrels: (0..a.conns.len())
            .map(|c| {
                let mut v: Vec<u16> = a.requests(c).into_iter().filter_map(|p| if let Packet::Pubrel(x) = &p.pkt { Some(x.pid) } else { None }).collect();
                v.sort();
                v
            })
            .collect(),
        acks: (0..a.conns.len()).map(|c| a.acks(c).into_iter().map(|p| p.pkt.clone()).collect()).collect(),
        ops: a.ops.values().map(|o| (o.idx, o.outcome().cloned())).collect(),
        streams: a.streams.iter().map(|(k, s)| (*k, (s.items.iter().map(|i| i.1.clone()).collect(), s.ended.is_some()))).collect(),
        connects: a.conns.iter().map(|c| c.connect_returned.as_ref().map(|x| x.1.clone())).collect(),
        runs: a.conns.iter().map(|c| c.run_returned.as_ref().map(|x| x.1.clone())).collect(),
        panics: a.panics.iter().map(|p| panic_site(&p.2)).collect(),
    }
}

pub fn first_difference(a: &Observable, b: &Observable) -> Option<String> {
    if a.panics != b.panics {
        return Some("panics".into());
    }
    if a.connects != b.connects {
        return Some("connect-result".into());
    }
    if a.runs != b.runs {
        return Some("run-result".into());
    }
    if a.requests != b.requests {
        return Some("requests-on-wire".into());
    }
    if a.pubrels != b.pubrels {
        return Some("pubrels-on-wire".into());
    }
    if a.acks != b.acks {
        return Some("acknowledgements-on-wire".into());
    }
    if a.ops != b.ops {
        return Some("operation-results".into());
    }
    if a.streams != b.streams {
        return Some("stream-items".into());
    }
    None
}

pub fn wire_wellformed(a: &Analysis, prop: &'static str) -> Vec<Violation> {
    let mut out = Vec::new();
    for (c, conn) in a.conns.iter().enumerate() {
        if let Some((off, why)) = &conn.wire_error {
            let pkt = a.raw_wire[c].get(*off).map(|b| rc::Kind::from_nibble(b >> 4).map(|k| k.name()).unwrap_or("RESERVED")).unwrap_or("?");
            // stable class: no lengths / offsets / values
            let why_short: String = why.split(|c: char| c == ':' || c == '(').next().unwrap_or("").chars().filter(|c| !c.is_ascii_digit()).take(48).collect::<String>().trim().replace("  ", " ");
            out.push(v(prop, format!("{prop}/malformed/{pkt}/{why_short}"), format!("connection {c} offset {off}: {why}")));
        }
    }
    out
}

// ---------------------------------------------------------------------------------------
// C13 — termination causes

#[derive(Clone, Debug, PartialEq, Eq)]
pub enum Cause {
    UserDisconnect(usize),
    ServerDisconnect(usize),
    ReadEnd,
    WriteFault,
    HandlesGone,
    Undecodable,
}

/// Terminating causes that occurred on connection `c` while `run()` was serving.
pub fn causes(a: &Analysis, sc: &Scenario, c: usize) -> Vec<Cause> {
    let mut out = Vec::new();
    let conn = &a.conns[c];
    let Some(rs) = conn.run_started else { return out };
    let _ = rs;
    let last_conn = c + 1 == a.conns.len();
    if last_conn {
        for op in a.ops.values() {
            // (a disconnect() the server's Maximum Packet Size does not admit is no DISCONNECT:
            // it is refused and nothing is written - decided from the request itself, since the
            // caller may have abandoned the future before seeing the refusal)
            let m = a.inbound.iter().find_map(|i| match &i.p.pkt {
                Some(Packet::Connack(k)) if i.p.conn == c => Some(k.props.u32(pid::MAXIMUM_PACKET_SIZE)),
                _ => None,
            }).flatten();
            let too_large = match (m, op.spec.expected()) {
                (Some(m), Some(p)) => crate::refcodec::encode(&p).len() > m as usize,
                _ => false,
            };
            if matches!(op.spec, OpSpec::Disconnect(_)) && op.first_poll.is_some() && !op.first_poll_ready && !too_large && op.err() != Some("MaximumPacketSizeExceeded") {
                out.push(Cause::UserDisconnect(op.idx));
            }
        }
    }
    for i in &a.inbound {
        if i.p.conn != c {
            continue;
        }
        match &i.p.pkt {
            Some(Packet::Disconnect(_)) if i.avail_seq.is_some() => out.push(Cause::ServerDisconnect(i.p.idx)),
            None if i.avail_seq.is_some() || conn.consumed > i.p.start => out.push(Cause::Undecodable),
            _ => {}
        }
    }
    if conn.read_end_seen.is_some() {
        out.push(Cause::ReadEnd);
    }
    if conn.write_fault_seen.is_some() {
        out.push(Cause::WriteFault);
    }
    if last_conn {
        let handles = sc.config.handles.max(1);
        let dropped: BTreeSet<usize> = sc.steps.iter().filter_map(|s| if let Step::DropHandle(k) = s { Some(*k) } else { None }).collect();
        let all_dropped = (0..handles).all(|k| dropped.contains(&k));
        let no_live_ops = !a.live_at_end.iter().any(|t| matches!(t, TaskRef::Op(_)));
        if all_dropped && no_live_ops {
            out.push(Cause::HandlesGone);
        }
    }
    out
}

fn disconnected_matches(e: &ErrDigest, p: &rc::ReasonProps) -> Option<&'static str> {
    if e.variant != "Disconnected" {
        return Some("variant");
    }
    if e.reason != Some(p.reason) {
        return Some("reason");
    }
    if e.reason_string.as_deref() != p.props.str(pid::REASON_STRING) {
        return Some("reason_string");
    }
    if e.server_reference.as_deref() != p.props.str(pid::SERVER_REFERENCE) {
        return Some("server_reference");
    }
    if e.user != p.props.user() {
        return Some("user_properties");
    }
    if !e.flaws.is_empty() {
        return Some("user_properties_accessors");
    }
    None
}

pub fn c13(a: &Analysis, sc: &Scenario) -> Vec<Violation> {
    let mut out = Vec::new();
    for (c, conn) in a.conns.iter().enumerate() {
        // --- connect()/authorize() outcome
        let first_in: Vec<&InView> = a.inbound.iter().filter(|i| i.p.conn == c).collect();
        let answered = first_in.first().filter(|i| i.avail_seq.is_some());
        let ctx_lost = a.ctx_dropped.is_some() || a.panics.iter().any(|p| p.1 == TaskRef::Ctx);
        match (&conn.connect_returned, answered.and_then(|i| i.p.pkt.as_ref())) {
            (Some((_, got)), Some(Packet::Connack(k))) => {
                let want_ok = k.reason < 0x80;
                match got {
                    ConnectOutcome::Connack(d) => {
                        if !want_ok {
                            out.push(v("C13", "C13/connect-result/ConnectError/ConnectRsp", format!("CONNACK reason 0x{:02x} returned as success", k.reason)));
                        } else if *d != connack_expected(k) {
                            out.push(v("C13", "C13/connect-result/ConnectRsp/content", format!("got {:?}", d)));
                        }
                    }
                    ConnectOutcome::Err(e) if e.variant == "ConnectError" => {
                        if want_ok {
                            out.push(v("C13", "C13/connect-result/ConnectRsp/ConnectError", format!("CONNACK reason 0x{:02x} returned as error", k.reason)));
                        } else if e.reason != Some(k.reason) || e.reason_string.as_deref() != k.props.str(pid::REASON_STRING) || e.user != k.props.user() || e.server_reference.as_deref() != k.props.str(pid::SERVER_REFERENCE) {
                            out.push(v("C13", "C13/connect-result/ConnectError/content", format!("got {:?}", e)));
                        }
                    }
                    other => out.push(v("C13", format!("C13/connect-result/{}/other", if want_ok { "ConnectRsp" } else { "ConnectError" }), format!("got {:?}", other))),
                }
            }
            (Some((_, got)), Some(Packet::Auth(p))) if p.reason < 0x80 => match got {
                ConnectOutcome::Auth(d) => {
                    if d.reason != p.reason || d.reason_string.as_deref() != p.props.str(pid::REASON_STRING) || d.authentication_method.as_deref() != p.props.str(pid::AUTH_METHOD) || d.authentication_data.as_deref() != p.props.bin(pid::AUTH_DATA) || d.user != p.props.user() || !d.flaws.is_empty() {
                        out.push(v("C13", "C13/connect-result/AuthRsp/content", format!("got {:?}", d)));
                    }
                }
                other => out.push(v("C13", "C13/connect-result/AuthRsp/other", format!("AUTH challenge gave {:?}", other))),
            },
            (Some((_, got)), None) if first_in.iter().all(|i| i.p.pkt.is_some()) && conn.read_end_seen.is_some() && conn.consumed < first_in.first().map(|i| i.p.end).unwrap_or(1) => {
                if !matches!(got, ConnectOutcome::Err(e) if e.variant == "SocketClosed") {
                    out.push(v("C13", "C13/connect-result/SocketClosed/other", format!("transport ended before any response, got {:?}", got)));
                }
            }
            (None, _) if conn.connect_started.is_some() && !ctx_lost => {
                let got_whole_response = answered.map(|i| conn.consumed >= i.p.end).unwrap_or(false);
                if got_whole_response && answered.map(|i| i.p.pkt.is_some()).unwrap_or(false) || conn.read_end_seen.is_some() {
                    out.push(v("C13", "C13/connect-result/pending", format!("connection {c}: connect() still pending although its response or the end of the transport was consumed")));
                }
            }
            _ => {}
        }
        // --- run() outcome
        if conn.run_started.is_none() {
            continue;
        }
        let cs = causes(a, sc, c);
        let got = conn.run_returned.as_ref();
        if cs.is_empty() {
            if let Some((seq, res)) = got {
                out.push(v("C13", "C13/run-returned-without-cause", format!("connection {c}: run() returned {:?} at {seq}", res.as_ref().map_err(|e| (&e.variant, &e.text)))));
            }
            continue;
        }
        if ctx_lost {
            continue;
        }
        let cause_name = |x: &Cause| match x {
            Cause::UserDisconnect(_) => "user-disconnect".to_string(),
            Cause::ServerDisconnect(i) => match &a.inbound[*i].p.pkt {
                Some(Packet::Disconnect(p)) if p.reason == 0 => "server-disconnect-0".into(),
                _ => "server-disconnect".into(),
            },
            Cause::ReadEnd => "read-end".into(),
            Cause::WriteFault => "write-fault".into(),
            Cause::HandlesGone => "handles-dropped".into(),
            Cause::Undecodable => "undecodable-input".into(),
        };
        let Some((rseq, res)) = got else {
            // a cause that the client has certainly seen and yet run() is pending
            let certain = cs.iter().find(|x| match x {
                Cause::UserDisconnect(_) => !conn.write_blocked_at_end,
                Cause::ServerDisconnect(i) => conn.consumed >= a.inbound[*i].p.end,
                Cause::ReadEnd => true,
                Cause::WriteFault => true,
                Cause::HandlesGone => !conn.write_blocked_at_end,
                Cause::Undecodable => conn.consumed == conn.inbound_len,
            });
            if let Some(x) = certain {
                out.push(v("C13", format!("C13/run-not-returned/{}", cause_name(x)), format!("connection {c}: cause {:?} occurred, run() is still pending", x)));
            }
            continue;
        };
        // acceptable results: the result of any of the causes present
        let mut ok = false;
        let mut why = Vec::new();
        for x in &cs {
            let verdict: Result<(), String> = match x {
                Cause::UserDisconnect(_) => {
                    if res.is_ok() { Ok(()) } else { Err(format!("expected Ok(()), got {:?}", res)) }
                }
                Cause::ServerDisconnect(i) if matches!(&a.inbound[*i].p.pkt, Some(Packet::Disconnect(p)) if p.reason == 0) => {
                    if res.is_ok() { Ok(()) } else { Err(format!("expected Ok(()), got {:?}", res)) }
                }
                Cause::ServerDisconnect(i) => match (&a.inbound[*i].p.pkt, res) {
                    (Some(Packet::Disconnect(p)), Err(e)) => match disconnected_matches(e, p) {
                        None => Ok(()),
                        Some(f) => Err(format!("Disconnected.{f} differs: {:?}", e)),
                    },
                    _ => Err(format!("expected Disconnected, got {:?}", res)),
                },
                Cause::ReadEnd | Cause::WriteFault => match res {
                    Err(e) if e.variant == "SocketClosed" => Ok(()),
                    _ => Err(format!("expected SocketClosed, got {:?}", res)),
                },
                Cause::HandlesGone => match res {
                    Err(e) if e.variant == "HandleClosed" => Ok(()),
                    _ => Err(format!("expected HandleClosed, got {:?}", res)),
                },
                Cause::Undecodable => match res {
                    Err(_) => Ok(()),
                    _ => Err("expected an error for undecodable input, got Ok(())".to_string()),
                },
            };
            match verdict {
                Ok(()) => ok = true,
                Err(w) => why.push(w),
            }
        }
        if !ok {
            let got_name = match res {
                Ok(()) => "Ok".to_string(),
                Err(e) => e.variant.clone(),
            };
            out.push(v("C13", format!("C13/run-result/{}/{}", cause_name(&cs[0]), got_name), format!("connection {c}: {}", why.join("; "))));
        }
        // user DISCONNECT: fully written before run() returned, nothing after it
        if cs.len() == 1 {
            if let Cause::UserDisconnect(_) = &cs[0] {
                let pkts: Vec<&WirePkt> = a.wire.iter().filter(|p| p.conn == c).collect();
                match pkts.iter().position(|p| matches!(p.pkt, Packet::Disconnect(_))) {
                    Some(pos) => {
                        if pos + 1 != pkts.len() || conn.partial_tail > 0 {
                            out.push(v("C13", "C13/bytes-after-disconnect", format!("connection {c}: {} packet(s) / {} stray byte(s) written after the DISCONNECT", pkts.len() - pos - 1, conn.partial_tail)));
                        }
                        if pkts[pos].seq_last > *rseq {
                            out.push(v("C13", "C13/run-result/user-disconnect/early", "run() returned before the DISCONNECT was fully written"));
                        }
                    }
                    None => {
                        if res.is_ok() {
                            out.push(v("C13", "C13/run-result/user-disconnect/not-written", "run() returned Ok(()) but no DISCONNECT is on the wire"));
                        }
                    }
                }
            }
        }
    }
    for p in real_panics(a) {
        if p.1 == TaskRef::Ctx {
            out.push(v("C13", format!("C13/panic/{}", panic_site(&p.2)), format!("context task panicked: {}", p.2)));
        }
    }
    out
}

// ---------------------------------------------------------------------------------------
// C14 — nothing hangs once the context is gone

fn op_phase(a: &Analysis, op: &OpView, at: usize) -> &'static str {
    if op.first_poll.map(|f| f > at).unwrap_or(true) {
        return "created-unpolled";
    }
    let on_wire = a.request_of(op.idx).iter().any(|p| p.seq_last < at);
    if !on_wire {
        return "queued-unsent";
    }
    if op.spec.publish_qos() == Some(2) {
        let rec = a.acks_for(op.idx).into_iter().find(|i| matches!(i.p.ack_for, Some((_, AckKind::Pubrec))) && i.avail_seq.map(|s| s < at).unwrap_or(false));
        if rec.is_some() {
            return "between-qos2-phases";
        }
    }
    "awaiting-ack"
}

pub fn c14(a: &Analysis, sc: &Scenario) -> Vec<Violation> {
    let mut out = Vec::new();
    let Some(gone) = a.ctx_gone else { return out };
    // position of the DropContext step among Op steps: ops created afterwards
    let mut late_ops = BTreeSet::new();
    let mut seen_drop = false;
    for s in &sc.steps {
        match s {
            Step::DropContext | Step::End => seen_drop = true,
            Step::Op { id, .. } if seen_drop => {
                late_ops.insert(*id);
            }
            _ => {}
        }
    }
    // `End` is a command the context task obeys when it is next polled: an operation that was
    // first polled before that moment was started while the context still existed (it is an
    // ordinary pending operation then, judged below)
    late_ops.retain(|i| a.ops.get(i).and_then(|o| o.first_poll).map(|fp| fp > gone).unwrap_or(true));
    for t in &a.live_at_end {
        match t {
            TaskRef::Op(i) => {
                let op = &a.ops[i];
                let phase = if late_ops.contains(i) { "started-after-drop" } else { op_phase(a, op, gone) };
                out.push(v("C14", format!("C14/hang/{}/{}", op.spec.kind_name(), phase), format!("op {i} is still pending after the context was dropped at {gone}")));
            }
            TaskRef::Consumer(s) => out.push(v("C14", "C14/stream-not-ended", format!("stream {s} neither yields nor ends after the context was dropped"))),
            TaskRef::Ctx => {}
        }
    }
    for op in a.ops.values() {
        let Some((rs, res)) = op.returned.first() else { continue };
        if late_ops.contains(&op.idx) {
            if res.err_variant() != Some("ContextExited") {
                out.push(v("C14", "C14/wrong-error/started-after-drop", format!("op {} started after the drop returned {:?}", op.idx, res)));
            } else if !op.first_poll_ready {
                out.push(v("C14", "C14/hang/started-after-drop/not-immediate", format!("op {} did not fail on its first poll", op.idx)));
            }
            continue;
        }
        if *rs < gone {
            continue;
        }
        if res.err_variant() == Some("ContextExited") || locally_refused(op) {
            continue;
        }
        // a proper result after the drop is only possible if the context had completed it before
        let completed_before = match op.spec.publish_qos() {
            Some(0) => a.request_of(op.idx).iter().any(|p| p.seq_last < gone),
            _ => match &op.spec {
                OpSpec::Disconnect(_) => a.wire.iter().any(|p| matches!(p.pkt, Packet::Disconnect(_)) && p.seq_last < gone),
                OpSpec::Ping => a.inbound.iter().any(|i| matches!(i.p.pkt, Some(Packet::Pingresp)) && i.avail_seq.map(|s| s < gone).unwrap_or(false)),
                _ => final_ack(a, op).and_then(|i| i.avail_seq).map(|s| s < gone).unwrap_or(false),
            },
        };
        if !completed_before {
            out.push(v("C14", format!("C14/wrong-error/{}", op_phase(a, op, gone)), format!("op {} returned {:?} after the context was dropped without having been completed", op.idx, res)));
        }
    }
    // a task that only moves when polled without a wake-up hangs under a wake-only executor
    for sp in &a.sweep_progress {
        if sp.0 > gone {
            let kind = match sp.1 {
                TaskRef::Ctx => continue,
                TaskRef::Op(_) => "operation",
                TaskRef::Consumer(_) => "stream",
            };
            out.push(v("C14", format!("C14/hang/{kind}/needs-spurious-poll"), format!("{:?} made progress only when polled without a wake-up after the context was dropped: {}", sp.1, sp.2)));
        }
    }
    // streams: items delivered before the drop, then the end
    let exp = expected_items(a, true);
    for (sub, sv) in &a.streams {
        if sv.opened.is_none() || sv.dropped.is_some() {
            continue;
        }
        if sv.ended.is_none() && !a.live_at_end.contains(&TaskRef::Consumer(*sub)) {
            continue;
        }
        if let Some(e) = sv.ended {
            if e < gone {
                out.push(v("C14", "C14/stream-ended-early", format!("stream {sub} ended at {e} before the context was gone")));
            }
        }
        // every message whose acknowledgement the context wrote must have been kept
        if let Some(want) = exp.get(sub) {
            for (iidx, msg, _) in want {
                let inb = &a.inbound[*iidx];
                let Some(Packet::Publish(p)) = &inb.p.pkt else { continue };
                if p.qos == 0 {
                    continue;
                }
                let kind = if p.qos == 1 { Kind::Puback } else { Kind::Pubrec };
                let acked = a.wire.iter().any(|w| w.conn == inb.p.conn && w.pkt.kind() == kind && w.pkt.pid() == p.pid && inb.avail_seq.map(|s| s < w.seq_first).unwrap_or(false));
                let registered_in_time = a.request_of(*sub).iter().any(|r| inb.avail_seq.map(|s| r.seq_last < s).unwrap_or(false));
                if acked && registered_in_time && !sv.items.iter().any(|it| it.1.topic == msg.topic && it.1.payload == msg.payload) {
                    out.push(v("C14", "C14/stream-lost-items", format!("stream {sub}: message {} was acknowledged but never yielded", msg.topic)));
                }
            }
        }
    }
    let mut items = streams_check(a, "C14");
    items.retain(|x| !x.class.contains("early-end"));
    for mut x in items {
        x.class = format!("C14/stream-items/{}", x.class.trim_start_matches("C14/"));
        out.push(x);
    }
    out
}

// ---------------------------------------------------------------------------------------
// C15 — cancellation

pub fn c15(a: &Analysis, probe_from: Option<usize>) -> Vec<Violation> {
    let mut out = Vec::new();
    // run() must keep serving
    for (c, conn) in a.conns.iter().enumerate() {
        if let Some((seq, res)) = &conn.run_returned {
            // which cancellation does it follow?
            let mut best: Option<(&OpView, &'static str)> = None;
            for op in a.ops.values() {
                if let Some(cs) = op.cancelled {
                    if cs < *seq {
                        let phase = op_phase(a, op, cs);
                        if best.map(|b| b.0.cancelled.unwrap() < cs).unwrap_or(true) {
                            best = Some((op, phase));
                        }
                    }
                }
            }
            let point = match best {
                Some((op, ph)) => format!("{}/{}", op.spec.kind_name(), ph),
                None => {
                    if a.streams.values().any(|s| s.dropped.map(|d| d < *seq).unwrap_or(false)) {
                        "stream-dropped".to_string()
                    } else {
                        "no-cancellation".to_string()
                    }
                }
            };
            out.push(v("C15", format!("C15/run-returned/{point}"), format!("connection {c}: run() returned {:?} at {seq}", res.as_ref().map_err(|e| (&e.variant, &e.text)))));
        }
    }
    if a.run_returned() {
        return out;
    }
    for mut x in c05(a) {
        x.property = "C15";
        x.class = format!("C15/survivor-disturbed/{}", x.class.trim_start_matches("C05/"));
        out.push(x);
    }
    for mut x in streams_check(a, "C15") {
        x.class = format!("C15/survivor-disturbed/{}", x.class.trim_start_matches("C15/"));
        out.push(x);
    }
    // a QoS 2 publish dropped AFTER it had submitted its PUBREL (it was polled after the context
    // had handed it the PUBREC): the PUBREL is a request like any other and must still be sent,
    // otherwise the PUBCOMP never comes and the slot is never freed
    if a.ctx_gone.is_none() && a.fully_consumed() {
        for op in a.ops.values() {
            let (Some(cancel), Some(2)) = (op.cancelled, op.spec.publish_qos()) else { continue };
            let Some(rec) = a.acks_for(op.idx).into_iter().find(|i| matches!(&i.p.pkt, Some(Packet::Pubrec(x)) if x.reason < 0x80)) else { continue };
            // when did the context consume the PUBREC?
            let mut consumed = 0usize;
            let mut consumed_at = None;
            for (seq, e) in a.events.iter().enumerate() {
                if let Ev::Read { conn, n, .. } = e {
                    if *conn == rec.p.conn {
                        consumed += n;
                        if consumed >= rec.p.end {
                            consumed_at = Some(seq);
                            break;
                        }
                    }
                }
            }
            let Some(consumed_at) = consumed_at else { continue };
            // the context finishes handling it in the same poll: find that poll's end
            let handled_at = a.events.iter().enumerate().skip(consumed_at).find(|(_, e)| matches!(e, Ev::PollEnd { task: TaskRef::Ctx, .. })).map(|x| x.0).unwrap_or(usize::MAX);
            let submitted = a.events.iter().enumerate().any(|(seq, e)| seq > handled_at && seq < cancel && matches!(e, Ev::PollBegin { task: TaskRef::Op(i), .. } if *i == op.idx));
            if submitted {
                let pid = a.op_pid.get(&op.idx).copied();
                let sent = a.wire.iter().any(|w| matches!(&w.pkt, Packet::Pubrel(r) if Some(r.pid) == pid) && w.seq_first > consumed_at);
                if !sent {
                    out.push(v("C15", "C15/slot-not-freed/pubrel-not-sent", format!("op {}: dropped after it had submitted its PUBREL, which was never written", op.idx)));
                }
            }
        }
    }
    for mut x in c10(a, probe_from) {
        if x.class.starts_with("C10/leak") || x.class.starts_with("C10/overflow") {
            x.property = "C15";
            x.class = format!("C15/slot-not-freed/{}", x.class.trim_start_matches("C10/"));
            out.push(x);
        }
    }
    out
}

/// C03 — chunked execution `a` against the reference execution `r` (one read per packet).
pub fn c03(a: &Analysis, r: &Analysis) -> Vec<Violation> {
    let mut out = Vec::new();
    let oa = observable(a);
    let or = observable(r);
    // the comparison is meaningful only when both executions consumed everything injected
    let complete = a.fully_delivered() && r.fully_delivered() && a.ctx_dropped.is_none();
    if !complete {
        // no verdict on differences
    } else if let Some(d) = first_difference(&oa, &or) {
        out.push(v("C03", format!("C03/trace-differs/{d}"), format!("the chunked delivery and the packet-per-read delivery of the same bytes differ in {d}")));
    }
    for s in &a.stalls {
        out.push(v("C03", "C03/stall-unread", format!("quiescent at {} with {}", s.0, s.1)));
    }
    // bytes the client has already read count as well: a complete packet sitting in its buffer
    // must be handled without an unrelated event - the final sweep (a poll without a wake-up)
    // of either execution must find nothing to do in the context task
    for (which, x) in [("chunked", a), ("one-read-per-packet", r)] {
        // (a pending `ReadGate` step is the harness's own doing: the gate is taken by whoever
        // polls the reader next)
        if let Some(sp) = x.sweep_progress.iter().find(|sp| sp.1 == TaskRef::Ctx && !sp.2.starts_with("ReadGated")) {
            out.push(v("C03", "C03/lost-wakeup/context", format!("{which} execution: the context made progress only when polled without a wake-up at {}: {}", sp.0, sp.2)));
        }
    }
    for (c, conn) in a.conns.iter().enumerate() {
        let closed_result = |o: &Option<(usize, Result<(), ErrDigest>)>| matches!(o, Some((_, Err(e))) if e.variant == "SocketClosed");
        let connect_closed = matches!(&conn.connect_returned, Some((_, ConnectOutcome::Err(e))) if e.variant == "SocketClosed");
        if (closed_result(&conn.run_returned) || connect_closed) && conn.read_end_seen.is_none() && conn.write_fault_seen.is_none() {
            out.push(v("C03", "C03/early-eof", format!("connection {c}: SocketClosed reported although the transport never ended")));
        }
    }
    out
}

/// C12 — `a`: the run with Maximum Packet Size M; `twin`: the same scenario without a limit.
pub fn c12(a: &Analysis, twin: &Analysis, probe_from: Option<usize>) -> Vec<Violation> {
    let mut out = Vec::new();
    // Maximum Packet Size per connection (the latest CONNACK governs)
    let m_of = |conn: usize| -> Option<usize> {
        a.inbound.iter().find_map(|i| match &i.p.pkt {
            Some(Packet::Connack(c)) if i.p.conn == conn => Some(c.props.u32(pid::MAXIMUM_PACKET_SIZE).map(|v| v as usize)),
            _ => None,
        }).flatten()
    };
    // the connection that was serving when the operation was submitted
    let conn_of = |op: &OpView| -> Option<usize> {
        let fp = op.first_poll?;
        a.conns.iter().enumerate().rev().find_map(|(c, cv)| {
            let started = cv.run_started?;
            let ended = cv.run_returned.as_ref().map(|x| x.0).unwrap_or(usize::MAX);
            if started < fp && fp < ended { Some(c) } else { None }
        })
    };
    let single = a.conns.len() == 1;
    let m: Option<usize> = m_of(0);
    out.extend(wire_wellformed(a, "C12").into_iter().map(|mut x| {
        x.class = "C12/partial-write".into();
        x
    }));
    for (c, conn) in a.conns.iter().enumerate() {
        if conn.partial_tail > 0 && !conn.write_blocked_at_end && conn.write_fault_seen.is_none() {
            out.push(v("C12", "C12/partial-write", format!("connection {c}: {} byte(s) of an incomplete packet on the wire", conn.partial_tail)));
        }
    }
    let ping_len = twin.wire.iter().find(|p| matches!(p.pkt, Packet::Pingreq)).map(|p| p.len).unwrap_or(2);
    let disc_len = twin.wire.iter().find(|p| matches!(p.pkt, Packet::Disconnect(_))).map(|p| p.len);
    for op in a.ops.values() {
        if op.first_poll.is_none() {
            continue;
        }
        let kind = op.spec.kind_name();
        let l: Option<usize> = match &op.spec {
            OpSpec::Ping => Some(ping_len),
            OpSpec::Disconnect(_) => disc_len,
            _ => twin.request_of(op.idx).first().map(|p| p.len),
        };
        let Some(l) = l else { continue };
        // which limit applies: that of the connection serving when the request was submitted
        let Some(c) = conn_of(op) else { continue };
        let m = m_of(c);
        let on_wire = match &op.spec {
            OpSpec::Ping => None, // pings carry no marker; judged by count below
            OpSpec::Disconnect(_) => Some(a.wire.iter().any(|p| matches!(p.pkt, Packet::Disconnect(_)))),
            _ => Some(!a.request_of(op.idx).is_empty()),
        };
        let over = m.map(|m| l > m).unwrap_or(false);
        if over {
            if on_wire == Some(true) {
                out.push(v("C12", format!("C12/written-over-limit/{kind}"), format!("op {}: packet of {l} bytes written although Maximum Packet Size is {}", op.idx, m.unwrap())));
            }
            match op.outcome() {
                Some(o) if o.err_variant() == Some("MaximumPacketSizeExceeded") => {}
                Some(o) if o.err_variant() == Some("ContextExited") && (a.ctx_gone.is_some() || a.run_returned()) => {}
                Some(o) => out.push(v("C12", format!("C12/written-over-limit/{kind}/result"), format!("op {}: L={l} > M={} but the operation returned {:?}", op.idx, m.unwrap(), o))),
                None => {
                    if a.ctx_gone.is_none() && !a.run_returned() && op.cancelled.is_none() && a.fully_consumed() {
                        out.push(v("C12", format!("C12/written-over-limit/{kind}/pending"), format!("op {}: L={l} > M={} but the operation is still pending", op.idx, m.unwrap())));
                    }
                }
            }
        } else {
            if op.err() == Some("MaximumPacketSizeExceeded") {
                out.push(v("C12", format!("C12/refused-within-limit/{kind}"), format!("op {}: packet of {l} bytes refused although Maximum Packet Size is {:?}", op.idx, m)));
            } else if on_wire == Some(false) && !locally_refused(op) && a.ctx_gone.is_none() && !a.run_returned() && a.fully_consumed() && op.cancelled.is_none() && op.err() != Some("ContextExited") {
                out.push(v("C12", format!("C12/refused-within-limit/{kind}/not-written"), format!("op {}: packet of {l} bytes fits but is not on the wire (outcome {:?})", op.idx, op.outcome())));
            }
        }
    }
    if !single {
        return out;
    }
    // pings: every ping that fits is written, none that does not
    let pings = a.ops.values().filter(|o| matches!(o.spec, OpSpec::Ping) && o.first_poll.is_some()).count();
    let written = a.pings_on_wire();
    if m.map(|m| ping_len > m).unwrap_or(false) {
        if written > 0 {
            out.push(v("C12", "C12/written-over-limit/ping", format!("{written} PINGREQ written although Maximum Packet Size is {}", m.unwrap())));
        }
    } else if written < pings && a.ctx_gone.is_none() && !a.run_returned() && a.fully_consumed() && !a.ops.values().any(|o| matches!(o.spec, OpSpec::Ping) && o.cancelled.is_some()) {
        out.push(v("C12", "C12/refused-within-limit/ping/not-written", format!("{pings} pings issued, {written} written")));
    }
    // nothing left behind: the quota probe still finds exactly the free slots
    for mut x in c10(a, probe_from) {
        if x.class.starts_with("C10/leak") || x.class.starts_with("C10/overflow") || x.class.starts_with("C10/exceeded") {
            x.property = "C12";
            x.class = format!("C12/side-effect/{}", x.class.trim_start_matches("C10/"));
            out.push(x);
        }
    }
    // a refused request leaves run() alone: it may end gracefully only for a DISCONNECT that
    // was actually written (or received)
    for (c, conn) in a.conns.iter().enumerate() {
        if let Some((seq, Ok(()))) = &conn.run_returned {
            let written = a.wire.iter().any(|w| w.conn == c && matches!(w.pkt, Packet::Disconnect(_)));
            let received = a.inbound.iter().any(|i| i.p.conn == c && matches!(&i.p.pkt, Some(Packet::Disconnect(_))) && i.avail_seq.is_some());
            if !written && !received {
                out.push(v("C12", "C12/side-effect/run-ended", format!("connection {c}: run() returned Ok(()) at {seq} although no DISCONNECT was written (a refused one does not count)")));
            }
        }
    }
    // no stream registration disturbed: every subscription still gets exactly its messages
    for mut x in streams_check(a, "C12") {
        x.class = format!("C12/side-effect/stream/{}", x.class.trim_start_matches("C12/"));
        out.push(x);
    }
    // no stray completion: an operation refused locally returned exactly once
    for op in a.ops.values() {
        if op.returned.len() > 1 {
            out.push(v("C12", "C12/side-effect/double-completion", format!("op {} returned {} times", op.idx, op.returned.len())));
        }
    }
    out
}

/// C11 — identifiers on the wire: non-zero (the reference decoder already rejects 0), unique
/// among outstanding operations (broker view: outstanding from the request's first byte until
/// the completing acknowledgement is *sent*), subscription identifiers never reused.
pub fn c11(a: &Analysis) -> Vec<Violation> {
    let mut out = Vec::new();
    for (class, what) in &a.id_violations {
        out.push(v("C11", class.clone(), what.clone()));
    }
    for p in real_panics(a) {
        out.push(v("C11", format!("C11/panic/{}", panic_site(&p.2)), format!("{:?} panicked: {}", p.1, p.2)));
    }
    for x in wire_wellformed(a, "C11") {
        let class = if x.message.contains("identifier 0") { "C11/zero-id".to_string() } else { x.class.clone() };
        out.push(Violation { class, ..x });
    }
    #[derive(Clone, Copy)]
    enum E<'a> {
        Req(&'a WirePkt),
        Done(u16),
    }
    for c in 0..a.conns.len() {
        let mut evs: Vec<(usize, E)> = Vec::new();
        for w in a.wire.iter().filter(|w| w.conn == c) {
            match &w.pkt {
                // re-sent publishes keep their identifier outstanding on the new connection too
                Packet::Publish(p) if p.qos > 0 => evs.push((w.seq_first, E::Req(w))),
                Packet::Subscribe(_) | Packet::Unsubscribe(_) => evs.push((w.seq_first, E::Req(w))),
                _ => {}
            }
        }
        for i in a.inbound.iter().filter(|i| i.p.conn == c) {
            match &i.p.pkt {
                Some(Packet::Puback(x)) | Some(Packet::Pubcomp(x)) => evs.push((i.p.seq, E::Done(x.pid))),
                Some(Packet::Pubrec(x)) if x.reason >= 0x80 => evs.push((i.p.seq, E::Done(x.pid))),
                Some(Packet::Suback(x)) | Some(Packet::Unsuback(x)) => evs.push((i.p.seq, E::Done(x.pid))),
                _ => {}
            }
        }
        evs.sort_by_key(|e| e.0);
        let mut outstanding: BTreeMap<u16, usize> = BTreeMap::new();
        let mut subs: BTreeSet<u32> = BTreeSet::new();
        for (_, e) in evs {
            match e {
                E::Req(w) => {
                    let id = w.pkt.pid().unwrap();
                    if let Some(prev) = outstanding.get(&id) {
                        out.push(v("C11", "C11/duplicate-id/single-task", format!("packet identifier {id} at wire offset {} while the request at offset {prev} is still outstanding", w.off)));
                    }
                    outstanding.insert(id, w.off);
                    if let Packet::Subscribe(s) = &w.pkt {
                        for sid in s.props.varints(pid::SUBSCRIPTION_ID) {
                            if !subs.insert(sid) {
                                out.push(v("C11", "C11/duplicate-subscription-id", format!("subscription identifier {sid} used by two subscribe() calls")));
                            }
                        }
                    }
                }
                E::Done(id) => {
                    outstanding.remove(&id);
                }
            }
        }
    }
    out
}

// ---------------------------------------------------------------------------------------
// C17 — session resumption

/// Effective session expiry interval of connection `c` (CONNECT value, overridden by CONNACK).
fn session_expiry(a: &Analysis, c: usize) -> u64 {
    let from_connect = a.wire.iter().find_map(|w| match &w.pkt {
        Packet::Connect(x) if w.conn == c => Some(x.props.u32(pid::SESSION_EXPIRY).unwrap_or(0)),
        _ => None,
    });
    let from_connack = a.inbound.iter().find_map(|i| match &i.p.pkt {
        Some(Packet::Connack(k)) if i.p.conn == c => k.props.u32(pid::SESSION_EXPIRY),
        _ => None,
    });
    from_connack.or(from_connect).unwrap_or(0) as u64
}

pub fn c17(a: &Analysis, sc: &Scenario) -> Vec<Violation> {
    let mut out = Vec::new();
    // (connection index, elapsed seconds) of every resume that actually took place
    let _ = sc;
    let resumes: Vec<(usize, u64)> = a
        .events
        .iter()
        .filter_map(|e| if let Ev::Resumed { conn, elapsed } = e { Some((*conn, *elapsed)) } else { None })
        .filter(|(c, _)| *c >= 1 && *c < a.conns.len())
        .collect();
    for p in real_panics(a) {
        out.push(v("C17", format!("C17/panic/{}", panic_site(&p.2)), format!("{:?} panicked: {}", p.1, p.2)));
    }
    // what is re-sent must be well-formed like everything else the client writes
    out.extend(wire_wellformed(a, "C17"));
    for (c, elapsed) in resumes {
        let elapsed = effective_elapsed(a, c).unwrap_or(elapsed);
        let prev = c - 1;
        let old = &a.conns[prev];
        let new = &a.conns[c];
        let Some((old_end, _)) = old.run_returned else { continue };
        if new.run_started.is_none() {
            continue;
        }
        let e = session_expiry(a, prev);
        // the clock may also have been advanced between the end of run() and the reconnect
        let expired = e == 0 || (e != u32::MAX as u64 && elapsed > e);
        let near = e != 0 && e != u32::MAX as u64 && elapsed == e;
        if near {
            continue; // the instant of expiry itself: not specified
        }
        // what the previous connection left unfinished, in original wire order
        let strict = old.read_end_seen.is_some() && old.write_fault_seen.is_none();
        let arrived = |kind: Kind, id: u16, after: usize| -> Option<&InView> {
            a.inbound.iter().find(|i| i.p.conn == prev && i.p.seq > after && i.avail_seq.is_some() && i.p.pkt.as_ref().map(|p| p.kind() == kind && p.pid() == Some(id)).unwrap_or(false))
        };
        let mut expected: Vec<Packet> = Vec::new();
        let mut involved_ops: Vec<usize> = Vec::new();
        for w in a.wire.iter().filter(|w| w.conn == prev) {
            match &w.pkt {
                Packet::Publish(p) if p.qos > 0 => {
                    let id = p.pid.unwrap();
                    let ack_kind = if p.qos == 1 { Kind::Puback } else { Kind::Pubrec };
                    if arrived(ack_kind, id, w.seq_first).is_none() {
                        let mut again = p.clone();
                        again.dup = true;
                        expected.push(Packet::Publish(again));
                        if let Some(op) = marker_of(&w.pkt) {
                            involved_ops.push(op);
                        }
                    }
                }
                Packet::Pubrel(r) => {
                    if arrived(Kind::Pubcomp, r.pid, w.seq_first).is_none() {
                        expected.push(w.pkt.clone());
                        // the op: the QoS 2 publish with this identifier written before
                        if let Some(op) = a.wire.iter().filter(|x| x.conn == prev && x.off < w.off).rev().find_map(|x| match &x.pkt {
                            Packet::Publish(pp) if pp.pid == Some(r.pid) => marker_of(&x.pkt),
                            _ => None,
                        }) {
                            involved_ops.push(op);
                        }
                    }
                }
                _ => {}
            }
        }
        let _ = old_end;
        // (CONNECT and the AUTH packets of an extended authentication exchange precede them)
        let reqs: Vec<&WirePkt> = a.requests(c).into_iter().filter(|w| !matches!(w.pkt, Packet::Connect(_) | Packet::Auth(_))).collect();
        // re-sent packets = DUP publishes and PUBRELs for identifiers of the old connection
        let is_resend = |w: &WirePkt| match &w.pkt {
            Packet::Publish(p) => p.dup,
            _ => false,
        };
        if expired {
            if let Some(w) = reqs.iter().find(|w| is_resend(w)) {
                out.push(v("C17", "C17/resent-when-expired", format!("session expiry {e} s, offline {elapsed} s, yet {:?} id {:?} was re-sent", w.pkt.kind(), w.pkt.pid())));
            }
            if let Some(w) = reqs.first() {
                if let Packet::Pubrel(r) = &w.pkt {
                    if expected.iter().any(|x| matches!(x, Packet::Pubrel(y) if y.pid == r.pid)) {
                        out.push(v("C17", "C17/resent-when-expired", format!("session expiry {e} s, offline {elapsed} s, yet PUBREL id {} was re-sent", r.pid)));
                    }
                }
            }
            // abandoned operations (those whose handshake lived in the discarded session state)
            // must fail, not hang; an operation between its QoS 2 phases whose PUBREL had not
            // been written yet is not abandoned: it goes on with its PUBREL as new traffic
            if strict {
                for op_id in &involved_ops {
                    let Some(op) = a.ops.get(op_id) else { continue };
                    if op.cancelled.is_none() && op.outcome().is_none() && a.live_at_end.contains(&TaskRef::Op(op.idx)) {
                        out.push(v("C17", "C17/hang-after-expiry", format!("op {} was awaiting an acknowledgement when the connection was lost; the session expired but the future is still pending", op.idx)));
                    }
                }
            }
            continue;
        }
        if !strict {
            continue;
        }
        // not expired: the first requests after CONNECT are exactly `expected`
        let got: Vec<&Packet> = reqs.iter().take(expected.len()).map(|w| &w.pkt).collect();
        for (k, want) in expected.iter().enumerate() {
            match got.get(k) {
                None => {
                    let all_failed = involved_ops.iter().all(|o| a.ops.get(o).map(|x| x.err() == Some("ContextExited")).unwrap_or(false));
                    if reqs.iter().all(|w| !is_resend(w)) && all_failed && !involved_ops.is_empty() && k == 0 {
                        out.push(v("C17", "C17/reset-when-live", format!("session expiry {e} s, offline {elapsed} s: the session was reset, {} packet(s) were not re-sent and their operations failed", expected.len())));
                    } else if new.run_returned.is_none() && !new.write_blocked_at_end {
                        out.push(v("C17", "C17/not-resent", format!("expected re-send #{k} ({:?} id {:?}) is missing", want.kind(), want.pid())));
                    }
                    break;
                }
                Some(g) => {
                    if g.kind() != want.kind() || g.pid() != want.pid() {
                        let appears_later = reqs.iter().any(|w| w.pkt.kind() == want.kind() && w.pkt.pid() == want.pid() && (is_resend(w) || matches!(w.pkt, Packet::Pubrel(_))));
                        let class = if appears_later { "C17/order" } else if matches!(g, Packet::Publish(p) if p.dup) || matches!(g, Packet::Pubrel(_)) {
                            match g {
                                Packet::Publish(_) => "C17/resent-acked/publish",
                                _ => "C17/resent-acked/pubrel",
                            }
                        } else {
                            "C17/not-resent"
                        };
                        out.push(v("C17", class, format!("re-send position {k}: expected {:?} id {:?}, found {:?} id {:?}", want.kind(), want.pid(), g.kind(), g.pid())));
                        break;
                    }
                    if let (Packet::Publish(x), Packet::Publish(y)) = (g, want) {
                        if !x.dup {
                            out.push(v("C17", "C17/dup-flag", format!("re-sent PUBLISH id {:?} has DUP=0", x.pid)));
                        } else if x != y {
                            out.push(v("C17", "C17/content", format!("re-sent PUBLISH id {:?} differs from the original", x.pid)));
                        }
                    } else if g != &want {
                        out.push(v("C17", "C17/content", format!("re-sent {:?} id {:?} differs from the original", want.kind(), want.pid())));
                    }
                }
            }
        }
        // nothing else is re-sent
        for w in reqs.iter().skip(expected.len()) {
            if is_resend(w) {
                let class = "C17/resent-acked/publish";
                out.push(v("C17", class, format!("PUBLISH id {:?} re-sent with DUP=1 although it is not among the {} unfinished handshakes", w.pkt.pid(), expected.len())));
                break;
            }
        }
        // a PUBREL on the new connection beyond the expected ones must be a first transmission
        // (its PUBREC arrived, possibly on the old connection, and no PUBREL was written yet)
        for w in reqs.iter().skip(expected.len()) {
            if let Packet::Pubrel(r) = &w.pkt {
                let written_before = a.wire.iter().any(|x| x.conn == prev && matches!(&x.pkt, Packet::Pubrel(y) if y.pid == r.pid));
                let fresh_pubrec = a.inbound.iter().any(|i| i.p.conn == c && matches!(&i.p.pkt, Some(Packet::Pubrec(x)) if x.pid == r.pid) && i.avail_seq.map(|s| s < w.seq_first).unwrap_or(false));
                if written_before && !fresh_pubrec {
                    out.push(v("C17", "C17/resent-acked/pubrel", format!("PUBREL id {} re-sent although its PUBCOMP had arrived", r.pid)));
                    break;
                }
            }
        }
        // original futures complete on the acknowledgements of the new connection
        if new.run_returned.is_none() && a.ctx_gone.is_none() && new.consumed == new.inbound_len && !new.write_blocked_at_end {
            for op_id in &involved_ops {
                let Some(op) = a.ops.get(op_id) else { continue };
                if op.cancelled.is_some() {
                    continue;
                }
                let acks: Vec<&InView> = a.acks_for(*op_id).into_iter().filter(|i| i.p.conn == c && i.avail_seq.is_some()).collect();
                // (a failing PUBREC ends the exchange only if it is the one PUBREC this publish
                // gets: the resume generator may "forget" a successful PUBREC it believes lost
                // although the client consumed it, and a second, different PUBREC for the same
                // exchange is not something a server sends - see log entry 19)
                let had_successful_pubrec = |before: Option<usize>| {
                    a.acks_for(*op_id).into_iter().any(|i| matches!(&i.p.pkt, Some(Packet::Pubrec(x)) if x.reason < 0x80) && i.avail_seq.is_some() && i.avail_seq < before)
                };
                let completing = acks.iter().find(|i| match &i.p.pkt {
                    Some(Packet::Puback(_)) | Some(Packet::Pubcomp(_)) => true,
                    Some(Packet::Pubrec(x)) => x.reason >= 0x80 && !had_successful_pubrec(i.avail_seq),
                    _ => false,
                });
                if let Some(ack) = completing {
                    let want = expected_outcome(op, ack.p.pkt.as_ref().unwrap());
                    match op.outcome() {
                        Some(got) if outcome_matches(got, &want) => {}
                        Some(got) => out.push(v("C17", "C17/original-future", format!("op {}: acknowledged on the new connection, returned {:?} instead of {:?}", op_id, got, want))),
                        None => out.push(v("C17", "C17/original-future", format!("op {}: acknowledged on the new connection but still pending", op_id))),
                    }
                }
            }
        }
    }
    out
}

/// Absolute part of C03 for cases built from explicit well-formed packets: the execution with
/// one read per packet must observe exactly the injected packets (a framing defect that does
/// not depend on chunking is invisible to the differential comparison).
pub fn c03_reference(r: &Analysis, reference: &Scenario) -> Vec<Violation> {
    let mut out = Vec::new();
    if r.ctx_gone.is_some() || !r.fully_delivered() {
        return out;
    }
    let mut packets: Vec<Packet> = Vec::new();
    for s in &reference.steps {
        if let Step::Broker { pkt: BrokerPkt::Raw(bytes), .. } = s {
            match rc::decode(bytes) {
                Ok((p, n)) if n == bytes.len() => packets.push(p),
                _ => return out, // not a single well-formed packet: no absolute expectation
            }
        }
    }
    if packets.is_empty() || packets.iter().any(|p| matches!(p, Packet::Connack(_) | Packet::Disconnect(_) | Packet::Auth(_))) {
        return out;
    }
    // stream items
    for (sub, sid) in &r.op_subid {
        let want: Vec<&rc::Publish> = packets
            .iter()
            .filter_map(|p| match p {
                Packet::Publish(x) if x.props.varints(pid::SUBSCRIPTION_ID).contains(sid) => Some(x),
                _ => None,
            })
            .collect();
        let Some(sv) = r.streams.get(sub) else { continue };
        if sv.opened.is_none() || sv.dropped.is_some() {
            continue;
        }
        let got: Vec<&MessageDigest> = sv.items.iter().map(|i| &i.1).collect();
        if got.len() != want.len() || got.iter().zip(want.iter()).any(|(g, w)| g.payload != w.payload || g.topic != w.topic || g.qos != w.qos) {
            out.push(v("C03", "C03/reference-differs-from-injected/stream-items", format!("one read per packet: stream {sub} yielded {} item(s), {} PUBLISH packet(s) were injected for it", got.len(), want.len())));
        }
    }
    // pings
    let pingresps = packets.iter().filter(|p| matches!(p, Packet::Pingresp)).count();
    let pings: Vec<&OpView> = r.ops.values().filter(|o| matches!(o.spec, OpSpec::Ping) && o.first_poll.is_some()).collect();
    let done = pings.iter().filter(|o| o.outcome() == Some(&OpOutcome::Done)).count();
    if done != pings.len().min(pingresps) {
        out.push(v("C03", "C03/reference-differs-from-injected/ping", format!("one read per packet: {pingresps} PINGRESP injected for {} ping(s), {done} completed", pings.len())));
    }
    // acknowledgements due for injected QoS>0 publishes
    let due = packets.iter().filter(|p| matches!(p, Packet::Publish(x) if x.qos > 0)).count();
    let written = r.wire.iter().filter(|w| matches!(w.pkt, Packet::Puback(_) | Packet::Pubrec(_))).count();
    if due != written {
        out.push(v("C03", "C03/reference-differs-from-injected/acknowledgements", format!("one read per packet: {due} inbound QoS>0 PUBLISH injected, {written} acknowledged")));
    }
    out
}
