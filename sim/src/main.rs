
use posim::check::{self, Options, Tier};
use posim::refcodec;

fn usage() -> ! {
    eprintln!(
        "usage: posim check <PROPERTY> [--tier quick|thorough] [--seed N] [--runs N] [--threads N] [--out DIR] [--tag checked|wrapping]\n       posim replay <file>\n       posim selftest refcodec|determinism [--seed N]"
    );
    std::process::exit(2);
}

fn main() {
    let args: Vec<String> = std::env::args().skip(1).collect();
    if args.is_empty() {
        usage();
    }
    let flag = |name: &str| -> Option<String> { args.iter().position(|a| a == name).and_then(|i| args.get(i + 1).cloned()) };
    let env_seed = std::env::var("VERIF_SEED").ok().and_then(|s| s.parse::<u64>().ok());
    let seed = flag("--seed").and_then(|s| s.parse().ok()).or(env_seed).unwrap_or(1);
    let threads = flag("--threads").and_then(|s| s.parse().ok()).unwrap_or_else(|| std::thread::available_parallelism().map(|n| n.get()).unwrap_or(4).min(16));
    let out_dir = flag("--out").unwrap_or_else(|| "/verif".to_string());
    let tag = flag("--tag").unwrap_or_else(|| if cfg!(debug_assertions) { "checked".into() } else { "wrapping".into() });
    match args[0].as_str() {
        "check" => {
            let Some(prop) = args.get(1) else { usage() };
            let tier = match flag("--tier").or_else(|| std::env::var("VERIF_TIER").ok()).as_deref() {
                Some("thorough") => Tier::Thorough,
                _ => Tier::Quick,
            };
            let opt = Options {
                property: prop.clone(),
                tier,
                seed,
                runs: flag("--runs").and_then(|s| s.parse().ok()),
                threads,
                out_dir,
                profile_tag: tag,
            };
            println!("VERIF_SEED={seed}");
            let code = check::run_check(&opt);
            std::process::exit(code);
        }
        "gen" => {
            // triage aid: writes the scenario of one random run (as generated) as a replay file
            let Some(prop) = args.get(1).cloned() else { usage() };
            let idx: u64 = flag("--run").and_then(|s| s.parse().ok()).unwrap_or(0);
            let tier = match flag("--tier").as_deref() {
                Some("thorough") => posim::check::Tier::Thorough,
                _ => posim::check::Tier::Quick,
            };
            let mut rng = posim::rng::Rng::derive(seed, idx, 0);
            let case = match flag("--sys").and_then(|s| s.parse::<usize>().ok()) {
                // the i-th systematic case instead of a random run
                Some(i) => posim::props::systematic(&prop, tier, seed).into_iter().nth(i).expect("systematic case index"),
                None => posim::props::generate(&prop, tier, &mut rng, idx),
            };
            let rf = posim::scenario::ReplayFile {
                property: prop.clone(),
                class: "none".into(),
                message: String::new(),
                seed,
                run: idx,
                profile: case.profile.to_string(),
                aux: case.aux.clone(),
                original_steps: case.scenario.steps.len(),
                scenario: case.scenario,
                regenerate: None,
            };
            println!("{}", serde_json::to_string_pretty(&rf).unwrap());
        }
        "replay" => {
            let Some(path) = args.get(1) else { usage() };
            std::process::exit(check::run_replay(path));
        }
        "selftest" => match args.get(1).map(|s| s.as_str()) {
            Some("refcodec") => match refcodec::selftest() {
                Ok(n) => println!("refcodec selftest ok: {n} vectors"),
                Err(e) => {
                    eprintln!("refcodec selftest FAILED: {e}");
                    std::process::exit(2);
                }
            },
            Some("determinism") => {
                // every property profile: the same (seed, index) must give the same history hash
                // whichever worker thread runs it, with 1 and with N workers, and in any process
                // (the printed digest is compared across processes by tools/determinism.sh)
                let n: u64 = flag("--n").and_then(|s| s.parse().ok()).unwrap_or(300);
                let props = ["C01", "C02", "C03", "C04", "C05", "C06", "C07", "C08", "C09", "C10", "C11", "C12", "C13", "C14", "C15", "C16", "C17"];
                let mut total = posim::rng::Fnv::default();
                let mut bad = 0u64;
                for p in props {
                    let one = posim::check::digests(p, seed, n, 1);
                    let many = posim::check::digests(p, seed, n, threads.max(2));
                    let again = posim::check::digests(p, seed, n, 3);
                    let mism = one.iter().zip(many.iter()).zip(again.iter()).filter(|((a, b), c)| a != b || a != c).count() as u64;
                    bad += mism;
                    use std::hash::{Hash, Hasher};
                    one.hash(&mut total);
                    println!("{p}: {n} scenarios x 3 executions (1, {}, 3 workers): {mism} mismatches, digest {:016x}", threads.max(2), posim::rng::fnv_of(&one));
                }
                use std::hash::Hasher;
                println!("DIGEST seed={seed} n={n} {:016x}", total.finish());
                if bad > 0 {
                    eprintln!("harness error: {bad} nondeterministic executions");
                    std::process::exit(2);
                }
            }
            _ => usage(),
        },
        _ => usage(),
    }
}
