mod refcodec;
mod rng;
mod scenario;
mod spec;
mod world;

use scenario::*;
use spec::*;
use world::*;

fn main() {
    let n = refcodec::selftest().expect("refcodec selftest");
    println!("refcodec selftest ok: {n} vectors");
    let mut w = World::new(Config::default());
    let steps = vec![
        Step::Start { connect: ConnectSpec { client_id: Some("c".into()), ..Default::default() }, auths: vec![] },
        Step::Settle { seed: 1 },
        Step::Broker { pkt: BrokerPkt::Connack { session_present: false, reason: 0, props: Default::default() }, chunks: Chunks::Whole, hold: false },
        Step::Settle { seed: 2 },
        Step::Op { handle: 0, spec: OpSpec::Publish(PublishSpec { qos: Some(1), topic: Some("t/0".into()), payload: Some(b"hi".to_vec()), ..Default::default() }) },
        Step::Settle { seed: 3 },
        Step::Broker { pkt: BrokerPkt::Ack { op: 0, kind: AckKind::Puback, reasons: vec![0], props: Default::default(), form: refcodec::Form::Full }, chunks: Chunks::Whole, hold: false },
        Step::Settle { seed: 4 },
    ];
    for s in &steps {
        w.exec(s);
    }
    w.finish();
    for (i, e) in w.events().iter().enumerate() {
        println!("{i:3} {:?}", e);
    }
    for p in &w.wire {
        println!("wire: {:?}", p);
    }
    println!("hash {:016x}", w.history_hash());
}
