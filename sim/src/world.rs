//! The simulated world: executor, transports, broker, clock, history. Real poster code runs
//! as tasks polled only by this module.

use crate::refcodec::{self as rc, DecodeError, Form, Kind, Packet, PropVal, Props};
use crate::rng::{Fnv, Rng};
use crate::scenario::*;
use crate::spec::*;
use futures::{AsyncRead, AsyncWrite, StreamExt};
use poster::{prelude::Either, Context, ContextHandle, SubscribeRsp};
use serde::{Deserialize, Serialize};
use std::{
    cell::{Cell, RefCell},
    collections::{BTreeMap, BTreeSet, VecDeque},
    future::Future,
    hash::{Hash, Hasher},
    io,
    panic::{catch_unwind, AssertUnwindSafe},
    pin::Pin,
    rc::Rc,
    sync::{
        atomic::{AtomicBool, AtomicU64, Ordering},
        Arc,
    },
    task::{Context as TaskCx, Poll, Wake, Waker},
    time::{Duration, SystemTime},
};

// ---------------------------------------------------------------------------------------
// History

#[derive(Clone, Debug, PartialEq, Eq, Hash, Serialize, Deserialize)]
pub enum PollRes {
    Pending,
    Ready,
    Panicked(String),
}

#[derive(Clone, Debug, PartialEq, Eq, Hash, Serialize, Deserialize)]
pub enum Ev {
    StepBegin { idx: usize, kind: String },
    Skipped { idx: usize, why: String },
    PollBegin { task: TaskRef, woken: bool },
    PollEnd { task: TaskRef, res: PollRes },
    Wake { task: TaskRef },
    Dropped { task: TaskRef },
    DropPanicked { task: TaskRef, msg: String },
    Wrote { conn: usize, n: usize },
    WriteBlocked { conn: usize },
    WriteFault { conn: usize, kind: String },
    /// Inbound stream bytes `..upto` are now available to the reader.
    Delivered { conn: usize, upto: usize },
    Read { conn: usize, n: usize, asked: usize },
    ReadGated { conn: usize },
    ReadZeroLenBuf { conn: usize },
    ReadEof { conn: usize },
    ReadErr { conn: usize },
    Inbound { idx: usize, conn: usize, start: usize, end: usize },
    ConnectStarted { conn: usize },
    /// The context recorded (through the hook) that its previous connection was lost `elapsed`
    /// seconds ago, right before connecting again as `conn`.
    Resumed { conn: usize, elapsed: u64 },
    ConnectReturned { conn: usize, out: ConnectOutcome },
    AuthorizeReturned { conn: usize, round: usize, out: ConnectOutcome },
    RunStarted { conn: usize },
    RunReturned { conn: usize, out: Result<(), ErrDigest> },
    CtxIdle,
    CtxEnded,
    OpReturned { op: usize, out: OpOutcome },
    StreamOpened { sub: usize },
    StreamItem { sub: usize, msg: MessageDigest },
    StreamEnded { sub: usize },
    /// Quiescent point with input the context task has not consumed and no way to get polled.
    Stall { conn: usize, what: String },
    /// Polling a task whose waker had not fired produced an observable effect.
    SweepProgress { task: TaskRef, what: String },
    /// Online identifier check of a long history (C11).
    IdViolation { class: String, what: String },
    IdHistoryDone { ops: u32, wraps: u32, max_outstanding: usize },
    SettleOverrun,
    ClockAdvanced { secs: u64 },
    IdsPreset { packet_id: u16, sub_id: u32 },
}

#[derive(Clone, Copy, Debug, PartialEq, Eq)]
pub enum Phase {
    Idle,
    Connecting,
    Running,
    Gone,
}

enum Cmd {
    Connect { conn: usize, mark: Option<u64>, connect: ConnectSpec, auths: Vec<AuthSpec>, reader: SimReader, writer: SimWriter },
    End,
}

pub struct Shared {
    pub events: RefCell<Vec<Ev>>,
    cmds: RefCell<VecDeque<Cmd>>,
    cmd_waker: RefCell<Option<Waker>>,
    sub_rsps: RefCell<BTreeMap<usize, SubscribeRsp>>,
    select: Cell<SelectPolicy>,
    bytes_read: Cell<u64>,
    bytes_written: Cell<u64>,
    ops_started: Cell<u64>,
    select_calls: Cell<u64>,
    phase: Cell<Phase>,
    snapshots: RefCell<BTreeSet<(u16, usize, usize, usize)>>,
}

impl Shared {
    pub fn push(&self, ev: Ev) -> usize {
        let mut e = self.events.borrow_mut();
        // a library that spins on a zero-length write inside one poll would otherwise fill the
        // memory of the machine long before the watchdog reports the hang: the same fault
        // event is recorded at most 16 times in a row
        if matches!(ev, Ev::WriteFault { .. } | Ev::ReadEof { .. } | Ev::ReadErr { .. }) {
            let n = e.len();
            if n >= 16 && e[n - 16..].iter().all(|x| *x == ev) {
                return n - 1;
            }
        }
        e.push(ev);
        e.len() - 1
    }
    fn select_index(&self, n: usize) -> usize {
        self.select_calls.set(self.select_calls.get() + 1);
        // futures' shuffle: for 2 branches one call with n == 2; returning 1 keeps the
        // declaration order (packet branch first), 0 swaps.
        match self.select.get() {
            SelectPolicy::PacketFirst => n - 1,
            SelectPolicy::MessageFirst => 0,
            SelectPolicy::Hashed(seed) => {
                let mut h = Fnv::default();
                (seed, self.bytes_read.get(), self.bytes_written.get(), self.ops_started.get()).hash(&mut h);
                (h.finish() % n as u64) as usize
            }
        }
    }
}

thread_local! {
    static ACTIVE: RefCell<Option<Rc<Shared>>> = const { RefCell::new(None) };
    static HOOK_INSTALLED: Cell<bool> = const { Cell::new(false) };
    static LAST_PANIC: RefCell<Option<String>> = const { RefCell::new(None) };
}

static PANIC_HOOK: std::sync::Once = std::sync::Once::new();

fn install_hooks() {
    PANIC_HOOK.call_once(|| {
        let default = std::panic::take_hook();
        std::panic::set_hook(Box::new(move |info| {
            let in_sim = ACTIVE.with(|a| a.try_borrow().map(|g| g.is_some()).unwrap_or(true));
            if !in_sim {
                default(info);
                return;
            }
            let msg = if let Some(s) = info.payload().downcast_ref::<&str>() {
                s.to_string()
            } else if let Some(s) = info.payload().downcast_ref::<String>() {
                s.clone()
            } else {
                "<non-string panic>".to_string()
            };
            let loc = info
                .location()
                .map(|l| {
                    let f = l.file();
                    let f = f.rsplit_once("/src/").map(|(_, t)| t).unwrap_or(f);
                    format!("{}:{}", f, l.line())
                })
                .unwrap_or_default();
            LAST_PANIC.with(|p| *p.borrow_mut() = Some(format!("{msg} @ {loc}")));
        }));
    });
    HOOK_INSTALLED.with(|h| {
        if !h.get() {
            h.set(true);
            futures_util::sim_set_select_hook(Some(Box::new(|n| {
                ACTIVE.with(|a| match a.try_borrow() {
                    Ok(g) => g.as_ref().map(|s| s.select_index(n)).unwrap_or(n - 1),
                    Err(_) => n - 1,
                })
            })));
        }
    });
}

// ---------------------------------------------------------------------------------------
// Transport

pub struct Pipe {
    pub conn: usize,
    shared: Rc<Shared>,
    // reader side
    pub avail: VecDeque<Vec<u8>>,
    pub held: VecDeque<Vec<u8>>,
    pub gate: bool,
    pub eof: bool,
    pub rerr: bool,
    pub rwaker: Option<Waker>,
    pub scribble: bool,
    pub coalesce: bool,
    pub glitch: Option<u8>,
    pub inbound_len: usize,
    pub delivered: usize,
    pub consumed: usize,
    pub end_seen: bool,
    // writer side
    pub wire: Vec<u8>,
    pub wsizes: Vec<usize>,
    pub wsize_pos: usize,
    pub wblock_after: Option<usize>,
    pub wwaker: Option<Waker>,
    pub werr_after: Option<usize>,
    pub wzero_after: Option<usize>,
    /// (end offset in `wire`, event sequence number of the write that produced it)
    pub wmarks: Vec<(usize, usize)>,
}

impl Pipe {
    fn new(conn: usize, shared: Rc<Shared>, scribble: bool, coalesce: bool) -> Self {
        Pipe {
            conn,
            shared,
            avail: VecDeque::new(),
            held: VecDeque::new(),
            gate: false,
            eof: false,
            rerr: false,
            rwaker: None,
            scribble,
            coalesce,
            glitch: None,
            inbound_len: 0,
            delivered: 0,
            consumed: 0,
            end_seen: false,
            wire: Vec::new(),
            wsizes: Vec::new(),
            wsize_pos: 0,
            wblock_after: None,
            wwaker: None,
            werr_after: None,
            wzero_after: None,
            wmarks: Vec::new(),
        }
    }
    pub fn readable(&self) -> bool {
        !self.avail.is_empty() || ((self.eof || self.rerr) && !self.end_seen) || self.glitch.is_some()
    }
    pub fn write_blocked(&self) -> bool {
        self.wblock_after == Some(0)
    }
    pub fn seq_of_wire_offset(&self, off: usize) -> usize {
        // sequence number of the write event that carried byte `off`
        match self.wmarks.binary_search_by(|(end, _)| {
            if *end > off {
                std::cmp::Ordering::Greater
            } else {
                std::cmp::Ordering::Less
            }
        }) {
            Ok(i) | Err(i) => self.wmarks.get(i).map(|m| m.1).unwrap_or(usize::MAX),
        }
    }
}

pub struct SimReader(Rc<RefCell<Pipe>>);
pub struct SimWriter(Rc<RefCell<Pipe>>);

impl AsyncRead for SimReader {
    fn poll_read(self: Pin<&mut Self>, cx: &mut TaskCx<'_>, buf: &mut [u8]) -> Poll<io::Result<usize>> {
        let mut guard = self.0.borrow_mut();
        let p = &mut *guard;
        let conn = p.conn;
        if p.gate {
            p.gate = false;
            cx.waker().wake_by_ref();
            p.shared.push(Ev::ReadGated { conn });
            return Poll::Pending;
        }
        if buf.is_empty() {
            p.shared.push(Ev::ReadZeroLenBuf { conn });
            return Poll::Ready(Ok(0));
        }
        if let Some(k) = p.glitch.take() {
            // a transient failure: reported once, whatever is available stays available
            p.end_seen = true;
            p.shared.push(Ev::ReadErr { conn });
            let kind = match k {
                0 => io::ErrorKind::Interrupted,
                1 => io::ErrorKind::WouldBlock,
                2 => io::ErrorKind::TimedOut,
                _ => io::ErrorKind::Other,
            };
            return Poll::Ready(Err(io::Error::new(kind, "simulated transient read error")));
        }
        if let Some(front) = p.avail.front_mut() {
            let mut n = front.len().min(buf.len());
            buf[..n].copy_from_slice(&front[..n]);
            if n == front.len() {
                p.avail.pop_front();
            } else {
                front.drain(..n);
            }
            // a socket hands over everything that has arrived, not one segment per read
            while p.coalesce && n < buf.len() {
                let Some(next) = p.avail.front_mut() else { break };
                let m = next.len().min(buf.len() - n);
                buf[n..n + m].copy_from_slice(&next[..m]);
                if m == next.len() {
                    p.avail.pop_front();
                } else {
                    next.drain(..m);
                }
                n += m;
            }
            if p.scribble {
                // bounded: a packet announcing a huge remaining length makes the library ask for
                // hundreds of megabytes per read, and scribbling all of it one byte-sized read
                // after another made a single run take minutes
                for (i, b) in buf[n..].iter_mut().take(2048).enumerate() {
                    *b = 0xF5u8.wrapping_add((i % 7) as u8 * 0x11) | 0x80;
                }
            }
            p.consumed += n;
            p.shared.bytes_read.set(p.shared.bytes_read.get() + n as u64);
            p.shared.push(Ev::Read { conn, n, asked: buf.len() });
            return Poll::Ready(Ok(n));
        }
        if p.rerr {
            p.end_seen = true;
            p.shared.push(Ev::ReadErr { conn });
            return Poll::Ready(Err(io::Error::new(io::ErrorKind::ConnectionReset, "simulated read error")));
        }
        if p.eof {
            p.end_seen = true;
            p.shared.push(Ev::ReadEof { conn });
            return Poll::Ready(Ok(0));
        }
        p.rwaker = Some(cx.waker().clone());
        Poll::Pending
    }
}

impl AsyncWrite for SimWriter {
    fn poll_write(self: Pin<&mut Self>, cx: &mut TaskCx<'_>, buf: &[u8]) -> Poll<io::Result<usize>> {
        let mut guard = self.0.borrow_mut();
        let p = &mut *guard;
        let conn = p.conn;
        if p.werr_after == Some(0) {
            p.shared.push(Ev::WriteFault { conn, kind: "error".into() });
            return Poll::Ready(Err(io::Error::new(io::ErrorKind::BrokenPipe, "simulated write error")));
        }
        if p.wzero_after == Some(0) {
            p.shared.push(Ev::WriteFault { conn, kind: "zero".into() });
            return Poll::Ready(Ok(0));
        }
        if p.wblock_after == Some(0) {
            p.wwaker = Some(cx.waker().clone());
            p.shared.push(Ev::WriteBlocked { conn });
            return Poll::Pending;
        }
        if buf.is_empty() {
            return Poll::Ready(Ok(0));
        }
        let mut n = buf.len();
        if !p.wsizes.is_empty() {
            let s = p.wsizes[p.wsize_pos % p.wsizes.len()].max(1);
            n = n.min(s);
        }
        for lim in [p.werr_after, p.wzero_after, p.wblock_after].into_iter().flatten() {
            n = n.min(lim);
        }
        p.wsize_pos += 1;
        p.wire.extend_from_slice(&buf[..n]);
        for lim in [&mut p.werr_after, &mut p.wzero_after, &mut p.wblock_after] {
            if let Some(v) = lim {
                *v -= n;
            }
        }
        p.shared.bytes_written.set(p.shared.bytes_written.get() + n as u64);
        let seq = p.shared.push(Ev::Wrote { conn, n });
        let end = p.wire.len();
        p.wmarks.push((end, seq));
        Poll::Ready(Ok(n))
    }
    fn poll_flush(self: Pin<&mut Self>, _cx: &mut TaskCx<'_>) -> Poll<io::Result<()>> {
        Poll::Ready(Ok(()))
    }
    fn poll_close(self: Pin<&mut Self>, _cx: &mut TaskCx<'_>) -> Poll<io::Result<()>> {
        Poll::Ready(Ok(()))
    }
}

// ---------------------------------------------------------------------------------------
// Tasks

struct WakeFlag {
    woken: AtomicBool,
    wakes: AtomicU64,
}

impl Wake for WakeFlag {
    fn wake(self: Arc<Self>) {
        self.wake_by_ref();
    }
    fn wake_by_ref(self: &Arc<Self>) {
        self.woken.store(true, Ordering::SeqCst);
        self.wakes.fetch_add(1, Ordering::SeqCst);
    }
}

/// The waker handed to one particular poll. The contract of `Future::poll` obliges a future to
/// arrange for the waker of its MOST RECENT poll to be woken; wakers of earlier polls may be
/// ignored by an executor, and this one does ignore them (a library that parks on a stale
/// waker - e.g. a stream that is handed from one task to another - is then never woken).
struct PollWaker {
    flag: Arc<WakeFlag>,
    generation: u64,
    current: Arc<AtomicU64>,
    strict: bool,
}

impl Wake for PollWaker {
    fn wake(self: Arc<Self>) {
        self.wake_by_ref();
    }
    fn wake_by_ref(self: &Arc<Self>) {
        if !self.strict || self.generation == self.current.load(Ordering::SeqCst) {
            self.flag.wake_by_ref();
        }
    }
}

#[derive(Clone, Copy, Debug, PartialEq, Eq)]
pub enum TaskStatus {
    Live,
    Done,
    Dropped,
    Panicked,
}

struct Task {
    fut: Option<Pin<Box<dyn Future<Output = ()>>>>,
    flag: Arc<WakeFlag>,
    polls: u64,
    status: TaskStatus,
    /// Number of the latest poll: only its waker counts (see `PollWaker`).
    generation: Arc<AtomicU64>,
}

struct CmdFuture(Rc<Shared>);

impl Future for CmdFuture {
    type Output = Cmd;
    fn poll(self: Pin<&mut Self>, cx: &mut TaskCx<'_>) -> Poll<Cmd> {
        if let Some(c) = self.0.cmds.borrow_mut().pop_front() {
            return Poll::Ready(c);
        }
        *self.0.cmd_waker.borrow_mut() = Some(cx.waker().clone());
        Poll::Pending
    }
}

async fn ctx_script(mut ctx: Context<SimReader, SimWriter>, shared: Rc<Shared>) {
    loop {
        shared.phase.set(Phase::Idle);
        shared.push(Ev::CtxIdle);
        let cmd = CmdFuture(shared.clone()).await;
        match cmd {
            Cmd::End => break,
            Cmd::Connect { conn, mark, connect, auths, reader, writer } => {
                if let Some(ago) = mark {
                    ctx.verif_mark_disconnected(Duration::from_secs(ago));
                    shared.push(Ev::Resumed { conn, elapsed: ago });
                }
                ctx.set_up((reader, writer));
                shared.phase.set(Phase::Connecting);
                shared.push(Ev::ConnectStarted { conn });
                let mut res = ctx.connect(connect.opts()).await;
                shared.push(Ev::ConnectReturned { conn, out: digest_connect(&res) });
                let mut round = 0;
                while let (Ok(Either::Right(_)), Some(a)) = (&res, auths.get(round)) {
                    res = ctx.authorize(a.opts()).await;
                    shared.push(Ev::AuthorizeReturned { conn, round, out: digest_connect(&res) });
                    round += 1;
                }
                if let Ok(Either::Left(_)) = res {
                    shared.phase.set(Phase::Running);
                    shared.snapshots.borrow_mut().insert(ctx.verif_snapshot());
                    shared.push(Ev::RunStarted { conn });
                    let out = ctx.run().await;
                    shared.snapshots.borrow_mut().insert(ctx.verif_snapshot());
                    shared.push(Ev::RunReturned { conn, out: out.as_ref().map(|_| ()).map_err(digest_err) });
                }
            }
        }
    }
    shared.phase.set(Phase::Gone);
    shared.push(Ev::CtxEnded);
}

async fn op_script(mut handle: ContextHandle, op: usize, spec: OpSpec, shared: Rc<Shared>) {
    let out = match &spec {
        OpSpec::Publish(p) => digest_unit(&handle.publish(p.opts()).await),
        OpSpec::Ping => digest_unit(&handle.ping().await),
        OpSpec::Disconnect(d) => digest_unit(&handle.disconnect(d.opts()).await),
        OpSpec::Unsubscribe(u) => digest_unsubscribe(&handle.unsubscribe(u.opts()).await),
        OpSpec::Subscribe(s) => {
            let r = handle.subscribe(s.opts()).await;
            let d = digest_subscribe(&r);
            if let Ok(rsp) = r {
                shared.sub_rsps.borrow_mut().insert(op, rsp);
            }
            d
        }
    };
    drop(handle);
    shared.push(Ev::OpReturned { op, out });
}

async fn consumer_script(rsp: SubscribeRsp, sub: usize, shared: Rc<Shared>) {
    let mut stream = rsp.stream();
    shared.push(Ev::StreamOpened { sub });
    loop {
        match stream.next().await {
            Some(m) => {
                shared.push(Ev::StreamItem { sub, msg: digest_message(&m) });
            }
            None => {
                shared.push(Ev::StreamEnded { sub });
                break;
            }
        }
    }
}

// ---------------------------------------------------------------------------------------
// Wire bookkeeping

#[derive(Clone, Debug)]
pub struct WirePkt {
    pub conn: usize,
    pub off: usize,
    pub len: usize,
    /// Sequence numbers of the write events that carried the first and the last byte.
    pub seq_first: usize,
    pub seq_last: usize,
    pub pkt: Packet,
}

#[derive(Clone, Debug)]
pub struct InboundPkt {
    pub idx: usize,
    pub conn: usize,
    pub start: usize,
    pub end: usize,
    pub step: usize,
    pub seq: usize,
    /// `None` for raw / hostile bytes.
    pub pkt: Option<Packet>,
    pub bytes_len: usize,
    pub form: Form,
    /// Client operation this packet acknowledges (conformant broker steps only).
    pub ack_for: Option<(usize, AckKind)>,
    /// Subscription references of an injected PUBLISH.
    pub subs: Vec<SubRef>,
}

#[derive(Clone, Debug)]
pub struct OpInfo {
    pub handle: usize,
    pub spec: OpSpec,
    pub step: usize,
}

pub fn marker_of(pkt: &Packet) -> Option<usize> {
    fn num(s: &str, prefix: &str) -> Option<usize> {
        let rest = s.strip_prefix(prefix)?;
        let digits: String = rest.chars().take_while(|c| c.is_ascii_digit()).collect();
        if digits.is_empty() {
            return None;
        }
        digits.parse().ok()
    }
    match pkt {
        Packet::Publish(p) => num(&p.topic, "t/"),
        Packet::Subscribe(s) => s.filters.first().and_then(|f| num(&f.0, "f/")),
        Packet::Unsubscribe(u) => u.filters.first().and_then(|f| num(f, "u/")),
        _ => None,
    }
}

pub struct World {
    pub cfg: Config,
    pub shared: Rc<Shared>,
    tasks: BTreeMap<TaskRef, Task>,
    pub pipes: Vec<Rc<RefCell<Pipe>>>,
    pub handles: Vec<Option<ContextHandle>>,
    pub ops: BTreeMap<usize, OpInfo>,
    pub op_first_poll: BTreeMap<usize, usize>,
    pub wire: Vec<WirePkt>,
    parse_pos: Vec<usize>,
    pub wire_error: Vec<Option<(usize, String)>>,
    pub inbound: Vec<InboundPkt>,
    /// Identifier of the n-th injected inbound PUBLISH (None for QoS 0).
    pub inbound_publish_ids: Vec<Option<u16>>,
    pub inbound_qos2_unreleased: BTreeSet<u16>,
    next_inbound_id: u16,
    pub op_pid: BTreeMap<usize, u16>,
    pub op_subid: BTreeMap<usize, u32>,
    pub clock: SystemTime,
    pub clock_secs: u64,
    pub steps_done: usize,
    pub polls: u64,
    pub connected_once: bool,
    pub fault_fired: BTreeMap<&'static str, u64>,
}

const SETTLE_BOUND: usize = 200_000;

impl World {
    pub fn new(cfg: Config) -> World {
        install_hooks();
        let shared = Rc::new(Shared {
            events: RefCell::new(Vec::with_capacity(256)),
            cmds: RefCell::new(VecDeque::new()),
            cmd_waker: RefCell::new(None),
            sub_rsps: RefCell::new(BTreeMap::new()),
            select: Cell::new(cfg.select),
            bytes_read: Cell::new(0),
            bytes_written: Cell::new(0),
            ops_started: Cell::new(0),
            select_calls: Cell::new(0),
            phase: Cell::new(Phase::Idle),
            snapshots: RefCell::new(BTreeSet::new()),
        });
        let (ctx, handle) = Context::<SimReader, SimWriter>::new();
        if let Some((p, s)) = cfg.preset_ids {
            handle.verif_set_next_ids(p, s);
        }
        let mut handles = Vec::new();
        for _ in 1..cfg.handles.max(1) {
            handles.push(Some(handle.clone()));
        }
        handles.insert(0, Some(handle));
        let mut w = World {
            cfg,
            shared: shared.clone(),
            tasks: BTreeMap::new(),
            pipes: Vec::new(),
            handles,
            ops: BTreeMap::new(),
            op_first_poll: BTreeMap::new(),
            wire: Vec::new(),
            parse_pos: Vec::new(),
            wire_error: Vec::new(),
            inbound: Vec::new(),
            inbound_publish_ids: Vec::new(),
            inbound_qos2_unreleased: BTreeSet::new(),
            next_inbound_id: 0,
            op_pid: BTreeMap::new(),
            op_subid: BTreeMap::new(),
            clock: SystemTime::UNIX_EPOCH + Duration::from_secs(1_700_000_000),
            clock_secs: 0,
            steps_done: 0,
            polls: 0,
            connected_once: false,
            fault_fired: BTreeMap::new(),
        };
        w.spawn(TaskRef::Ctx, Box::pin(ctx_script(ctx, shared)));
        w
    }

    fn spawn(&mut self, tref: TaskRef, fut: Pin<Box<dyn Future<Output = ()>>>) {
        let flag = Arc::new(WakeFlag { woken: AtomicBool::new(true), wakes: AtomicU64::new(0) });
        self.tasks.insert(tref, Task { fut: Some(fut), flag, polls: 0, status: TaskStatus::Live, generation: Arc::new(AtomicU64::new(0)) });
    }

    pub fn status(&self, t: TaskRef) -> Option<TaskStatus> {
        self.tasks.get(&t).map(|t| t.status)
    }
    pub fn is_live(&self, t: TaskRef) -> bool {
        self.status(t) == Some(TaskStatus::Live)
    }
    pub fn is_woken(&self, t: TaskRef) -> bool {
        self.tasks.get(&t).map(|t| t.status == TaskStatus::Live && t.flag.woken.load(Ordering::SeqCst)).unwrap_or(false)
    }
    pub fn polls_of(&self, t: TaskRef) -> u64 {
        self.tasks.get(&t).map(|t| t.polls).unwrap_or(0)
    }
    pub fn live_tasks(&self) -> Vec<TaskRef> {
        self.tasks.iter().filter(|(_, t)| t.status == TaskStatus::Live).map(|(r, _)| *r).collect()
    }
    pub fn woken_tasks(&self) -> Vec<TaskRef> {
        self.tasks
            .iter()
            .filter(|(_, t)| t.status == TaskStatus::Live && t.flag.woken.load(Ordering::SeqCst))
            .map(|(r, _)| *r)
            .collect()
    }
    /// The PUBREL of QoS 2 operation `op` is on the wire (after the latest transmission of its
    /// PUBLISH; on the current connection if the PUBLISH went out on an earlier one).
    pub fn pubrel_on_wire(&self, op: usize) -> bool {
        let Some(&pid) = self.op_pid.get(&op) else { return false };
        let Some(pub_at) = self.wire.iter().rev().find(|p| marker_of(&p.pkt) == Some(op)).map(|p| (p.conn, p.off)) else {
            return false;
        };
        let cur = self.conn().unwrap_or(0);
        self.wire.iter().any(|p| {
            matches!(&p.pkt, Packet::Pubrel(a) if a.pid == pid) && ((p.conn == pub_at.0 && p.off > pub_at.1) || (p.conn > pub_at.0 && p.conn == cur))
        })
    }
    pub fn phase(&self) -> Phase {
        self.shared.phase.get()
    }
    pub fn conn(&self) -> Option<usize> {
        if self.pipes.is_empty() {
            None
        } else {
            Some(self.pipes.len() - 1)
        }
    }
    pub fn pipe(&self) -> Option<std::cell::Ref<'_, Pipe>> {
        self.pipes.last().map(|p| p.borrow())
    }
    pub fn events_len(&self) -> usize {
        self.shared.events.borrow().len()
    }
    pub fn has_sub_rsp(&self, op: usize) -> bool {
        self.shared.sub_rsps.borrow().contains_key(&op)
    }
    pub fn snapshots(&self) -> Vec<(u16, usize, usize, usize)> {
        self.shared.snapshots.borrow().iter().copied().collect()
    }

    fn fired(&mut self, what: &'static str) {
        *self.fault_fired.entry(what).or_insert(0) += 1;
    }

    /// Polls one task once. Returns false if the task is not live.
    pub fn poll_task(&mut self, tref: TaskRef) -> bool {
        let shared = self.shared.clone();
        let task = match self.tasks.get_mut(&tref) {
            Some(t) if t.status == TaskStatus::Live => t,
            _ => return false,
        };
        let woken = task.flag.woken.swap(false, Ordering::SeqCst);
        if let TaskRef::Op(i) = tref {
            if task.polls == 0 {
                let seq = shared.events.borrow().len();
                self.op_first_poll.insert(i, seq);
                shared.ops_started.set(shared.ops_started.get() + 1);
            }
        }
        task.polls += 1;
        self.polls += 1;
        shared.push(Ev::PollBegin { task: tref, woken });
        poster::verif::set_now(Some(self.clock));
        ACTIVE.with(|a| *a.borrow_mut() = Some(shared.clone()));
        let generation = task.generation.fetch_add(1, Ordering::SeqCst) + 1;
        let waker = Waker::from(Arc::new(PollWaker { flag: task.flag.clone(), generation, current: task.generation.clone(), strict: self.cfg.strict_wakers }));
        let mut cx = TaskCx::from_waker(&waker);
        let fut = task.fut.as_mut().expect("live task has a future");
        let res = catch_unwind(AssertUnwindSafe(|| fut.as_mut().poll(&mut cx)));
        let out = match res {
            Ok(Poll::Pending) => PollRes::Pending,
            Ok(Poll::Ready(())) => {
                task.status = TaskStatus::Done;
                let f = task.fut.take();
                let _ = catch_unwind(AssertUnwindSafe(move || drop(f)));
                PollRes::Ready
            }
            Err(_) => {
                task.status = TaskStatus::Panicked;
                let f = task.fut.take();
                let _ = catch_unwind(AssertUnwindSafe(move || drop(f)));
                let msg = LAST_PANIC.with(|p| p.borrow_mut().take()).unwrap_or_else(|| "<panic>".into());
                if tref == TaskRef::Ctx {
                    shared.phase.set(Phase::Gone);
                }
                PollRes::Panicked(msg)
            }
        };
        ACTIVE.with(|a| *a.borrow_mut() = None);
        shared.push(Ev::PollEnd { task: tref, res: out });
        self.refresh_wire();
        true
    }

    fn drop_task(&mut self, tref: TaskRef) -> bool {
        let shared = self.shared.clone();
        let task = match self.tasks.get_mut(&tref) {
            Some(t) if t.status == TaskStatus::Live => t,
            _ => return false,
        };
        task.status = TaskStatus::Dropped;
        let f = task.fut.take();
        ACTIVE.with(|a| *a.borrow_mut() = Some(shared.clone()));
        let r = catch_unwind(AssertUnwindSafe(move || drop(f)));
        ACTIVE.with(|a| *a.borrow_mut() = None);
        shared.push(Ev::Dropped { task: tref });
        if r.is_err() {
            let msg = LAST_PANIC.with(|p| p.borrow_mut().take()).unwrap_or_else(|| "<panic>".into());
            shared.push(Ev::DropPanicked { task: tref, msg });
        }
        if tref == TaskRef::Ctx {
            shared.phase.set(Phase::Gone);
        }
        true
    }

    /// Parses newly written bytes of the current connection into packets.
    fn refresh_wire(&mut self) {
        let Some(conn) = self.conn() else { return };
        if self.wire_error[conn].is_some() {
            return;
        }
        let pipe = self.pipes[conn].clone();
        let p = pipe.borrow();
        loop {
            let pos = self.parse_pos[conn];
            if pos >= p.wire.len() {
                break;
            }
            match rc::decode(&p.wire[pos..]) {
                Ok((pkt, n)) => {
                    let seq_first = p.seq_of_wire_offset(pos);
                    let seq_last = p.seq_of_wire_offset(pos + n - 1);
                    if let Some(op) = marker_of(&pkt) {
                        if let Some(id) = pkt.pid() {
                            self.op_pid.insert(op, id);
                        }
                        if let Packet::Subscribe(s) = &pkt {
                            if let Some(&sid) = s.props.varints(rc::pid::SUBSCRIPTION_ID).first() {
                                self.op_subid.insert(op, sid);
                            }
                        }
                    }
                    if let Packet::Pubcomp(a) = &pkt {
                        // client completed an inbound QoS 2 exchange
                        self.inbound_qos2_unreleased.remove(&a.pid);
                    }
                    self.wire.push(WirePkt { conn, off: pos, len: n, seq_first, seq_last, pkt });
                    self.parse_pos[conn] = pos + n;
                }
                Err(DecodeError::Incomplete) => break,
                Err(DecodeError::Malformed(m)) => {
                    self.wire_error[conn] = Some((pos, m));
                    break;
                }
            }
        }
    }

    /// Bytes written on the current connection that do not yet form a whole packet.
    pub fn partial_wire_bytes(&self) -> usize {
        match self.conn() {
            Some(c) => self.pipes[c].borrow().wire.len() - self.parse_pos[c],
            None => 0,
        }
    }

    fn new_connection(&mut self) -> (usize, SimReader, SimWriter) {
        let conn = self.pipes.len();
        let pipe = Rc::new(RefCell::new(Pipe::new(conn, self.shared.clone(), self.cfg.scribble, self.cfg.coalesce)));
        self.pipes.push(pipe.clone());
        self.parse_pos.push(0);
        self.wire_error.push(None);
        (conn, SimReader(pipe.clone()), SimWriter(pipe))
    }

    fn send_cmd(&mut self, cmd: Cmd) {
        self.shared.cmds.borrow_mut().push_back(cmd);
        if let Some(w) = self.shared.cmd_waker.borrow_mut().take() {
            w.wake();
        }
    }

    fn fresh_inbound_id(&mut self) -> u16 {
        loop {
            self.next_inbound_id = self.next_inbound_id.wrapping_add(1);
            if self.next_inbound_id == 0 {
                continue;
            }
            if !self.inbound_qos2_unreleased.contains(&self.next_inbound_id) {
                return self.next_inbound_id;
            }
        }
    }

    fn resolve_id(&mut self, id: IdSpec) -> Option<u16> {
        match id {
            IdSpec::Fresh => Some(self.fresh_inbound_id()),
            IdSpec::LowestFree => (1..=u16::MAX).find(|id| !self.inbound_qos2_unreleased.contains(id)),
            IdSpec::Raw(0) => None,
            IdSpec::Raw(n) => Some(n),
            IdSpec::SameAs(n) => self.inbound_publish_ids.get(n).copied().flatten(),
        }
    }

    /// Turns a symbolic broker packet into bytes (and the decoded form for the oracles).
    fn materialize(&mut self, pkt: &BrokerPkt) -> Result<(Vec<u8>, Option<Packet>, Form), String> {
        let ack = |kind: AckKind, pid: u16, reasons: &Vec<u8>, props: &Props| -> Packet {
            let r0 = reasons.first().copied().unwrap_or(0);
            match kind {
                AckKind::Puback => Packet::Puback(rc::Ack { pid, reason: r0, props: props.clone() }),
                AckKind::Pubrec => Packet::Pubrec(rc::Ack { pid, reason: r0, props: props.clone() }),
                AckKind::Pubcomp => Packet::Pubcomp(rc::Ack { pid, reason: r0, props: props.clone() }),
                AckKind::Suback => Packet::Suback(rc::SubAck { pid, props: props.clone(), reasons: reasons.clone() }),
                AckKind::Unsuback => Packet::Unsuback(rc::SubAck { pid, props: props.clone(), reasons: reasons.clone() }),
            }
        };
        Ok(match pkt {
            BrokerPkt::Raw(b) => (b.clone(), None, Form::Full),
            BrokerPkt::Connack { session_present, reason, props } => {
                let p = Packet::Connack(rc::Connack { session_present: *session_present, reason: *reason, props: props.clone() });
                (rc::encode(&p), Some(p), Form::Full)
            }
            BrokerPkt::Auth { reason, props, form } => {
                let p = Packet::Auth(rc::ReasonProps { reason: *reason, props: props.clone() });
                (rc::encode_form(&p, *form), Some(p), *form)
            }
            BrokerPkt::Ack { op, kind, reasons, props, form } => {
                let pid = *self.op_pid.get(op).ok_or_else(|| format!("request of op {op} not on the wire"))?;
                // the scripted broker is conformant: it completes an exchange only after its PUBREL
                if *kind == AckKind::Pubcomp && !self.pubrel_on_wire(*op) {
                    return Err(format!("PUBREL of op {op} not on the wire"));
                }
                let p = ack(*kind, pid, reasons, props);
                (rc::encode_form(&p, *form), Some(p), *form)
            }
            BrokerPkt::AckRaw { kind, pid, reasons, props, form } => {
                if *pid == 0 {
                    return Err("packet identifier 0".into());
                }
                let p = ack(*kind, *pid, reasons, props);
                (rc::encode_form(&p, *form), Some(p), *form)
            }
            BrokerPkt::Publish { subs, qos, id, dup, retain, topic, payload, props } => {
                let pid = if *qos > 0 {
                    Some(self.resolve_id(*id).ok_or_else(|| "identifier not resolvable".to_string())?)
                } else {
                    None
                };
                let mut all = Props::new();
                for s in subs {
                    let sid = match s {
                        SubRef::Raw(n) => *n,
                        SubRef::Op(op) => *self.op_subid.get(op).ok_or_else(|| format!("subscribe of op {op} not on the wire"))?,
                    };
                    if sid == 0 || sid > 268_435_455 {
                        return Err("subscription identifier out of range".into());
                    }
                    all.push(rc::pid::SUBSCRIPTION_ID, PropVal::VarInt(sid));
                }
                all.0.extend(props.0.iter().cloned());
                let p = Packet::Publish(rc::Publish {
                    dup: *dup && *qos > 0,
                    qos: *qos,
                    retain: *retain,
                    topic: topic.clone(),
                    pid,
                    props: all,
                    payload: payload.clone(),
                });
                if let Some(last) = self.inbound_publish_ids.last_mut() {
                    *last = pid;
                }
                if *qos == 2 {
                    self.inbound_qos2_unreleased.insert(pid.unwrap());
                }
                (rc::encode(&p), Some(p), Form::Full)
            }
            BrokerPkt::Pubrel { id, reason, props, form } => {
                let pid = self.resolve_id(*id).ok_or_else(|| "identifier not resolvable".to_string())?;
                let p = Packet::Pubrel(rc::Ack { pid, reason: *reason, props: props.clone() });
                (rc::encode_form(&p, *form), Some(p), *form)
            }
            BrokerPkt::Pingresp => (rc::encode(&Packet::Pingresp), Some(Packet::Pingresp), Form::Full),
            BrokerPkt::Disconnect { reason, props, form } => {
                let p = Packet::Disconnect(rc::ReasonProps { reason: *reason, props: props.clone() });
                (rc::encode_form(&p, *form), Some(p), *form)
            }
        })
    }

    fn deliver(&mut self, n: usize) -> bool {
        let Some(conn) = self.conn() else { return false };
        let pipe = self.pipes[conn].clone();
        let mut p = pipe.borrow_mut();
        if p.held.is_empty() || p.eof || p.rerr {
            return false;
        }
        for _ in 0..n {
            match p.held.pop_front() {
                Some(c) => {
                    p.delivered += c.len();
                    p.avail.push_back(c);
                }
                None => break,
            }
        }
        let upto = p.delivered;
        self.shared.push(Ev::Delivered { conn, upto });
        if let Some(w) = p.rwaker.take() {
            w.wake();
        }
        true
    }

    pub fn exec(&mut self, step: &Step) {
        let idx = self.steps_done;
        self.steps_done += 1;
        self.shared.push(Ev::StepBegin { idx, kind: step.kind_name().to_string() });
        let skip = |w: &World, why: &str| {
            w.shared.push(Ev::Skipped { idx, why: why.to_string() });
        };
        match step {
            Step::Start { connect, auths } | Step::Reconnect { connect, auths, .. } => {
                let is_re = matches!(step, Step::Reconnect { .. });
                // the context task must be waiting for a command (or not yet polled at all)
                if !self.is_live(TaskRef::Ctx) || self.phase() != Phase::Idle || is_re != self.connected_once {
                    skip(self, "context not idle");
                    return;
                }
                let mark = match step {
                    // u64::MAX: the Context is simply given a new transport, no disconnection is
                    // recorded (what the shipped library offers: it never records one itself)
                    Step::Reconnect { elapsed, .. } if *elapsed != u64::MAX => Some(*elapsed),
                    _ => None,
                };
                let (conn, reader, writer) = self.new_connection();
                self.connected_once = true;
                self.send_cmd(Cmd::Connect { conn, mark, connect: connect.clone(), auths: auths.clone(), reader, writer });
            }
            Step::End => {
                if !self.is_live(TaskRef::Ctx) || self.phase() != Phase::Idle {
                    skip(self, "context not idle");
                    return;
                }
                self.send_cmd(Cmd::End);
            }
            Step::Op { id, handle, spec } => {
                let op = *id;
                if self.ops.contains_key(&op) {
                    skip(self, "duplicate operation id");
                    return;
                }
                self.ops.insert(op, OpInfo { handle: *handle, spec: spec.clone(), step: idx });
                match self.handles.get(*handle).and_then(|h| h.as_ref()) {
                    Some(h) => {
                        let fut = op_script(h.clone(), op, spec.clone(), self.shared.clone());
                        self.spawn(TaskRef::Op(op), Box::pin(fut));
                    }
                    None => skip(self, "handle dropped"),
                }
            }
            Step::Poll(t) => {
                if !self.poll_task(*t) {
                    skip(self, "task not live");
                }
            }
            Step::RunOne { pick } => {
                let w = self.woken_tasks();
                if w.is_empty() {
                    skip(self, "nothing woken");
                } else {
                    self.poll_task(w[pick % w.len()]);
                }
            }
            Step::Spurious { pick } => {
                let idle: Vec<TaskRef> = self
                    .tasks
                    .iter()
                    .filter(|(_, t)| t.status == TaskStatus::Live && !t.flag.woken.load(Ordering::SeqCst) && t.polls > 0)
                    .map(|(r, _)| *r)
                    .collect();
                if idle.is_empty() {
                    skip(self, "no idle task");
                } else {
                    self.poll_task(idle[pick % idle.len()]);
                    self.fired("spurious_poll");
                }
            }
            Step::Settle { seed } => self.settle(*seed),
            Step::Broker { pkt, chunks, hold } => {
                if matches!(pkt, BrokerPkt::Publish { .. }) {
                    // keep "n-th injected PUBLISH" indices aligned with the step list even
                    // when this step turns out not to apply
                    self.inbound_publish_ids.push(None);
                }
                let Some(conn) = self.conn() else {
                    skip(self, "no connection");
                    return;
                };
                {
                    let p = self.pipes[conn].borrow();
                    if p.eof || p.rerr {
                        drop(p);
                        skip(self, "read side closed");
                        return;
                    }
                }
                match self.materialize(pkt) {
                    Err(why) => skip(self, &why),
                    Ok((bytes, decoded, form)) => {
                        let pipe = self.pipes[conn].clone();
                        let mut p = pipe.borrow_mut();
                        let start = p.inbound_len;
                        p.inbound_len += bytes.len();
                        let end = p.inbound_len;
                        let iidx = self.inbound.len();
                        let seq = self.shared.push(Ev::Inbound { idx: iidx, conn, start, end });
                        let ack_for = match pkt {
                            BrokerPkt::Ack { op, kind, .. } => Some((*op, *kind)),
                            _ => None,
                        };
                        let subs = match pkt {
                            BrokerPkt::Publish { subs, .. } => subs.clone(),
                            _ => Vec::new(),
                        };
                        self.inbound.push(InboundPkt { idx: iidx, conn, start, end, step: idx, seq, pkt: decoded, bytes_len: bytes.len(), form, ack_for, subs });
                        for c in chunks.cut(&bytes) {
                            p.held.push_back(c);
                        }
                        drop(p);
                        if !*hold {
                            self.deliver(usize::MAX);
                        }
                    }
                }
            }
            Step::Deliver { n } => {
                if !self.deliver(*n) {
                    skip(self, "nothing held");
                }
            }
            Step::ReadGate => match self.conn() {
                Some(c) => self.pipes[c].borrow_mut().gate = true,
                None => skip(self, "no connection"),
            },
            Step::WriterSizes { sizes } => match self.conn() {
                Some(c) => {
                    let mut p = self.pipes[c].borrow_mut();
                    p.wsizes = sizes.clone();
                    p.wsize_pos = 0;
                }
                None => skip(self, "no connection"),
            },
            Step::WriterBlock { after } => match self.conn() {
                Some(c) => self.pipes[c].borrow_mut().wblock_after = Some(*after),
                None => skip(self, "no connection"),
            },
            Step::WriterReady => match self.conn() {
                Some(c) => {
                    let mut p = self.pipes[c].borrow_mut();
                    p.wblock_after = None;
                    if let Some(w) = p.wwaker.take() {
                        w.wake();
                    }
                }
                None => skip(self, "no connection"),
            },
            Step::Fault(kind) => match self.conn() {
                Some(c) => {
                    let pipe = self.pipes[c].clone();
                    let mut p = pipe.borrow_mut();
                    match kind {
                        FaultKind::ReadEof | FaultKind::ReadErr => {
                            if p.eof || p.rerr {
                                drop(p);
                                skip(self, "read side already closed");
                                return;
                            }
                            if matches!(kind, FaultKind::ReadEof) {
                                p.eof = true;
                            } else {
                                p.rerr = true;
                            }
                            p.held.clear();
                            if let Some(w) = p.rwaker.take() {
                                w.wake();
                            }
                            drop(p);
                            self.fired(if matches!(kind, FaultKind::ReadEof) { "read_eof" } else { "read_err" });
                        }
                        FaultKind::ReadGlitch { kind } => {
                            if p.eof || p.rerr || p.glitch.is_some() {
                                drop(p);
                                skip(self, "read side already closed");
                                return;
                            }
                            p.glitch = Some(*kind);
                            if let Some(w) = p.rwaker.take() {
                                w.wake();
                            }
                            drop(p);
                            self.fired("read_glitch");
                        }
                        FaultKind::WriteErr { after } => {
                            p.werr_after = Some(*after);
                            if *after == 0 {
                                if let Some(w) = p.wwaker.take() {
                                    w.wake();
                                }
                            }
                            drop(p);
                            self.fired("write_err");
                        }
                        FaultKind::WriteZero { after } => {
                            p.wzero_after = Some(*after);
                            if *after == 0 {
                                if let Some(w) = p.wwaker.take() {
                                    w.wake();
                                }
                            }
                            drop(p);
                            self.fired("write_zero");
                        }
                    }
                }
                None => skip(self, "no connection"),
            },
            Step::CancelOp(i) => {
                if !self.drop_task(TaskRef::Op(*i)) {
                    skip(self, "op not live");
                } else {
                    self.fired("cancel_op");
                }
            }
            Step::DropStream(s) => {
                if self.drop_task(TaskRef::Consumer(*s)) {
                    self.fired("drop_stream");
                } else if self.shared.sub_rsps.borrow_mut().remove(s).is_some() {
                    self.shared.push(Ev::Dropped { task: TaskRef::Consumer(*s) });
                    self.fired("drop_stream");
                } else {
                    skip(self, "no such stream");
                }
            }
            Step::DropHandle(k) => match self.handles.get_mut(*k) {
                Some(h) if h.is_some() => {
                    *h = None;
                    self.fired("drop_handle");
                }
                _ => skip(self, "no such handle"),
            },
            Step::DropContext => {
                if !self.drop_task(TaskRef::Ctx) {
                    skip(self, "context not live");
                } else {
                    self.fired("drop_context");
                }
            }
            Step::OpenStream(s) => {
                let rsp = self.shared.sub_rsps.borrow_mut().remove(s);
                match rsp {
                    Some(r) if !self.tasks.contains_key(&TaskRef::Consumer(*s)) => {
                        let fut = consumer_script(r, *s, self.shared.clone());
                        self.spawn(TaskRef::Consumer(*s), Box::pin(fut));
                    }
                    Some(r) => {
                        self.shared.sub_rsps.borrow_mut().insert(*s, r);
                        skip(self, "stream already open");
                    }
                    None => skip(self, "no subscribe response"),
                }
            }
            Step::IdHistory { seed, ops, clones, max_outstanding, pin } => {
                if self.phase() != Phase::Running || !self.is_live(TaskRef::Ctx) {
                    skip(self, "client is not serving");
                    return;
                }
                self.id_history(*seed, *ops, *clones, *max_outstanding, *pin);
            }
            Step::SetNextIds { packet_id, sub_id } => match self.handles.iter().flatten().next() {
                Some(h) => {
                    h.verif_set_next_ids(*packet_id, *sub_id);
                    self.shared.push(Ev::IdsPreset { packet_id: *packet_id, sub_id: *sub_id });
                }
                None => skip(self, "no handle left"),
            },
            Step::AdvanceClock(secs) => {
                self.clock += Duration::from_secs(*secs);
                self.clock_secs += *secs;
                self.shared.push(Ev::ClockAdvanced { secs: *secs });
            }
        }
        self.refresh_wire();
        if self.cfg.sweep {
            self.sweep(false);
        }
    }

    /// Polls every live task whose waker has not fired, once. With `probe` the effects are
    /// recorded as `SweepProgress` events.
    pub fn sweep(&mut self, probe: bool) {
        let idle: Vec<TaskRef> = self
            .tasks
            .iter()
            .filter(|(_, t)| t.status == TaskStatus::Live && !t.flag.woken.load(Ordering::SeqCst) && t.polls > 0)
            .map(|(r, _)| *r)
            .collect();
        for t in idle {
            if self.is_woken(t) || !self.is_live(t) {
                continue; // woken meanwhile by an earlier poll of this sweep
            }
            let before = self.events_len();
            self.poll_task(t);
            if probe {
                let evs = self.shared.events.borrow();
                let mut what = None;
                for e in &evs[before..] {
                    match e {
                        Ev::PollBegin { .. } => {}
                        Ev::PollEnd { res: PollRes::Pending, .. } => {}
                        other => {
                            what = Some(format!("{:?}", other).chars().take(80).collect::<String>());
                            break;
                        }
                    }
                }
                drop(evs);
                if what.is_none() && self.is_woken(t) {
                    what = Some("task woke itself".into());
                }
                if let Some(w) = what {
                    self.shared.push(Ev::SweepProgress { task: t, what: w });
                }
            }
        }
    }

    pub fn settle(&mut self, seed: u64) {
        let mut rng = Rng::new(seed ^ 0x5e77_1e5e_771e);
        let mut n = 0usize;
        loop {
            let w = self.woken_tasks();
            if w.is_empty() {
                break;
            }
            let pick = if w.len() == 1 { 0 } else { rng.usize_below(w.len()) };
            self.poll_task(w[pick]);
            n += 1;
            if n > SETTLE_BOUND {
                self.shared.push(Ev::SettleOverrun);
                break;
            }
        }
        self.stall_probe();
    }

    /// At a quiescent point: has the context task left input unread without any way of
    /// being polled again?
    pub fn stall_probe(&mut self) {
        let Some(conn) = self.conn() else { return };
        if !self.is_live(TaskRef::Ctx) || self.is_woken(TaskRef::Ctx) {
            return;
        }
        let phase = self.phase();
        if phase != Phase::Connecting && phase != Phase::Running {
            return;
        }
        let p = self.pipes[conn].borrow();
        if !p.readable() {
            return;
        }
        if p.write_blocked() && p.wwaker.is_some() {
            return; // legitimately waiting for the transport to accept bytes
        }
        if p.gate {
            return;
        }
        let what = if p.avail.is_empty() {
            "end-of-stream or error pending".to_string()
        } else {
            format!("{} byte(s) available", p.avail.iter().map(|c| c.len()).sum::<usize>())
        };
        drop(p);
        // report once per quiescent state
        let dup = matches!(self.shared.events.borrow().last(), Some(Ev::Stall { .. }));
        if !dup {
            self.shared.push(Ev::Stall { conn, what });
        }
    }

    /// End of scenario: run to quiescence, stall probe, then the sweep probe (every task not
    /// woken is polled once; nothing observable may happen).
    pub fn finish(&mut self) {
        self.shared.push(Ev::StepBegin { idx: usize::MAX, kind: "Finish".into() });
        self.settle(0xF1A1);
        self.sweep(true);
        self.settle(0xF1A2);
    }

    /// Drops finished tasks and the recorded history so far (long C11 histories).
    fn compact(&mut self, keep: &mut Vec<Ev>) {
        let done: Vec<TaskRef> = self.tasks.iter().filter(|(_, t)| t.status != TaskStatus::Live).map(|(r, _)| *r).collect();
        for r in done {
            if let TaskRef::Op(i) = r {
                self.ops.remove(&i);
                self.op_pid.remove(&i);
                self.op_subid.remove(&i);
                self.op_first_poll.remove(&i);
            }
            self.tasks.remove(&r);
        }
        let mut ev = self.shared.events.borrow_mut();
        for e in ev.drain(..) {
            match e {
                Ev::PollEnd { res: PollRes::Panicked(_), .. } | Ev::IdViolation { .. } | Ev::RunReturned { .. } | Ev::Stall { .. } | Ev::DropPanicked { .. } => keep.push(e),
                _ => {}
            }
        }
        self.wire.clear();
        self.inbound.clear();
        self.shared.sub_rsps.borrow_mut().clear();
        if let Some(c) = self.conn() {
            let mut p = self.pipes[c].borrow_mut();
            let cut = self.parse_pos[c];
            p.wire.drain(..cut);
            p.wmarks.clear();
            self.parse_pos[c] = 0;
        }
    }

    fn id_history(&mut self, seed: u64, ops: u32, clones: usize, max_outstanding: usize, pin: bool) {
        let mut pinned: Option<u16> = None;
        use std::collections::BTreeMap as Map;
        let mut rng = Rng::new(seed ^ 0x1d1d_1d1d);
        let mut kept: Vec<Ev> = Vec::new();
        // packet id -> (op, kind: 1 publish1, 2 publish2, 3 subscribe, 4 unsubscribe, stage)
        let mut outstanding: Map<u16, (usize, u8, u8, u32)> = Map::new();
        let mut order: VecDeque<u16> = VecDeque::new();
        let mut sub_ids: BTreeSet<u32> = BTreeSet::new();
        let mut last_id: Option<u16> = None;
        let mut wraps = 0u32;
        let mut max_seen = 0usize;
        let mut next_op = self.ops.keys().next_back().map(|k| k + 1).unwrap_or(0);
        let mut wire_seen = 0usize;
        let clones = clones.clamp(1, self.handles.len());
        let mut violated = false;
        for n in 0..ops {
            if violated || !self.is_live(TaskRef::Ctx) || self.phase() != Phase::Running {
                break;
            }
            // submit one identifier-consuming operation
            let kind = 1 + rng.below(4) as u8;
            let op = next_op;
            next_op += 1;
            let spec = match kind {
                1 | 2 => OpSpec::Publish(PublishSpec { qos: Some(kind), topic: Some(format!("t/{op}")), payload: Some(vec![]), ..Default::default() }),
                3 => OpSpec::Subscribe(SubscribeSpec { filters: vec![(format!("f/{op}"), SubOptSpec::default())], user: vec![] }),
                _ => OpSpec::Unsubscribe(UnsubscribeSpec { filters: vec![format!("u/{op}")], user: vec![] }),
            };
            let handle = rng.usize_below(clones);
            if let Some(h) = self.handles[handle].as_ref() {
                self.ops.insert(op, OpInfo { handle, spec: spec.clone(), step: self.steps_done });
                let fut = op_script(h.clone(), op, spec, self.shared.clone());
                self.spawn(TaskRef::Op(op), Box::pin(fut));
            }
            self.settle(rng.next_u64());
            // inspect what reached the wire
            while wire_seen < self.wire.len() {
                let w = &self.wire[wire_seen];
                wire_seen += 1;
                let (pid, k): (u16, u8) = match &w.pkt {
                    Packet::Publish(p) if p.qos > 0 => (p.pid.unwrap(), p.qos),
                    Packet::Subscribe(s) => {
                        for sid in s.props.varints(rc::pid::SUBSCRIPTION_ID) {
                            if !sub_ids.insert(sid) {
                                self.shared.push(Ev::IdViolation { class: "C11/duplicate-subscription-id".into(), what: format!("subscription identifier {sid} used twice (operation #{n})") });
                                violated = true;
                            }
                        }
                        (s.pid, 3)
                    }
                    Packet::Unsubscribe(u) => (u.pid, 4),
                    Packet::Pubrel(a) => {
                        if let Some(e) = outstanding.get_mut(&a.pid) {
                            e.2 = 2; // PUBREL on the wire
                        }
                        continue;
                    }
                    _ => continue,
                };
                if let Some(prev) = last_id {
                    if pid < prev {
                        wraps += 1;
                    }
                }
                last_id = Some(pid);
                if pid == 0 {
                    self.shared.push(Ev::IdViolation { class: "C11/zero-id".into(), what: format!("packet identifier 0 (operation #{n})") });
                    violated = true;
                }
                if let Some(prev) = outstanding.get(&pid).filter(|prev| n - prev.3 < 65_535) {
                    // (an operation left outstanding while 65535 or more identifiers are
                    // allocated is outside the property's proviso)
                    self.shared.push(Ev::IdViolation { class: "C11/duplicate-id/single-task".into(), what: format!("packet identifier {pid} allocated to operation #{n} while operation {} still holds it", prev.0) });
                    violated = true;
                }
                let m = marker_of(&w.pkt).unwrap_or(usize::MAX);
                outstanding.insert(pid, (m, k, 0, n));
                if pin && pinned.is_none() {
                    pinned = Some(pid); // never acknowledged
                } else if pinned == Some(pid) {
                    pinned = None; // the cycle came round (outside the proviso): from now on an ordinary entry
                    order.push_back(pid);
                } else {
                    order.push_back(pid);
                }
            }
            max_seen = max_seen.max(outstanding.len());
            // acknowledge: keep at most `max_outstanding` in flight, in random order
            let in_play = outstanding.len() - usize::from(pinned.is_some());
            let mut budget = if in_play > max_outstanding { in_play - max_outstanding } else { rng.usize_below(2) };
            let mut guard = 0;
            while budget > 0 && !order.is_empty() && guard < 10_000 {
                guard += 1;
                let idx = if rng.coin() { 0 } else { rng.usize_below(order.len()) };
                let pid = order[idx];
                let Some(&(_, k, stage, _)) = outstanding.get(&pid) else {
                    order.remove(idx);
                    continue;
                };
                let (pkt, done) = match (k, stage) {
                    (1, _) => (Packet::Puback(rc::Ack { pid, reason: 0, props: Props::new() }), true),
                    (2, 0) => {
                        outstanding.get_mut(&pid).unwrap().2 = 1;
                        (Packet::Pubrec(rc::Ack { pid, reason: 0, props: Props::new() }), false)
                    }
                    (2, 1) => {
                        // PUBREL not yet seen: let the client run
                        self.settle(rng.next_u64());
                        while wire_seen < self.wire.len() {
                            if let Packet::Pubrel(a) = &self.wire[wire_seen].pkt {
                                if let Some(e) = outstanding.get_mut(&a.pid) {
                                    e.2 = 2;
                                }
                            }
                            wire_seen += 1;
                        }
                        if outstanding.get(&pid).map(|e| e.2) != Some(2) {
                            // give up on this one for now
                            budget -= 1;
                            continue;
                        }
                        (Packet::Pubcomp(rc::Ack { pid, reason: 0, props: Props::new() }), true)
                    }
                    (2, _) => (Packet::Pubcomp(rc::Ack { pid, reason: 0, props: Props::new() }), true),
                    (3, _) => (Packet::Suback(rc::SubAck { pid, props: Props::new(), reasons: vec![0] }), true),
                    _ => (Packet::Unsuback(rc::SubAck { pid, props: Props::new(), reasons: vec![0] }), true),
                };
                let bytes = rc::encode_form(&pkt, Form::Shortest);
                if let Some(c) = self.conn() {
                    let pipe = self.pipes[c].clone();
                    let mut p = pipe.borrow_mut();
                    p.inbound_len += bytes.len();
                    p.delivered += bytes.len();
                    p.avail.push_back(bytes);
                    if let Some(w) = p.rwaker.take() {
                        w.wake();
                    }
                }
                if done {
                    outstanding.remove(&pid);
                    order.remove(idx);
                    budget -= 1;
                }
                self.settle(rng.next_u64());
            }
            if n % 512 == 511 {
                // nothing written so far may be lost: only PUBRELs can be unseen here
                while wire_seen < self.wire.len() {
                    if let Packet::Pubrel(a) = &self.wire[wire_seen].pkt {
                        if let Some(e) = outstanding.get_mut(&a.pid) {
                            e.2 = 2;
                        }
                    }
                    wire_seen += 1;
                }
                self.compact(&mut kept);
                wire_seen = 0;
            }
        }
        self.compact(&mut kept);
        {
            let mut ev = self.shared.events.borrow_mut();
            let tail: Vec<Ev> = ev.drain(..).collect();
            ev.extend(kept);
            ev.extend(tail);
        }
        self.shared.push(Ev::IdHistoryDone { ops, wraps, max_outstanding: max_seen });
    }

    pub fn history_hash(&self) -> u64 {
        let mut h = Fnv::default();
        self.shared.events.borrow().hash(&mut h);
        for p in &self.pipes {
            p.borrow().wire.hash(&mut h);
        }
        h.finish()
    }

    pub fn events(&self) -> std::cell::Ref<'_, Vec<Ev>> {
        self.shared.events.borrow()
    }
}

impl Drop for World {
    fn drop(&mut self) {
        // drop all futures under the panic guard so that a panicking destructor cannot abort
        let refs: Vec<TaskRef> = self.tasks.keys().copied().collect();
        for r in refs {
            self.drop_task(r);
        }
        self.shared.sub_rsps.borrow_mut().clear();
        self.shared.cmds.borrow_mut().clear();
    }
}

pub fn kind_of_ack(k: AckKind) -> Kind {
    match k {
        AckKind::Puback => Kind::Puback,
        AckKind::Pubrec => Kind::Pubrec,
        AckKind::Pubcomp => Kind::Pubcomp,
        AckKind::Suback => Kind::Suback,
        AckKind::Unsuback => Kind::Unsuback,
    }
}
