//! The only source of choices in the simulator: xoshiro256** seeded through splitmix64.
//! Nothing in logging, hashing or evidence paths draws from it.

#[derive(Clone, Debug)]
pub struct Rng {
    s: [u64; 4],
}

fn splitmix64(state: &mut u64) -> u64 {
    *state = state.wrapping_add(0x9E37_79B9_7F4A_7C15);
    let mut z = *state;
    z = (z ^ (z >> 30)).wrapping_mul(0xBF58_476D_1CE4_E5B9);
    z = (z ^ (z >> 27)).wrapping_mul(0x94D0_49BB_1331_11EB);
    z ^ (z >> 31)
}

impl Rng {
    pub fn new(seed: u64) -> Self {
        let mut sm = seed;
        let mut s = [0u64; 4];
        for slot in s.iter_mut() {
            *slot = splitmix64(&mut sm);
        }
        if s == [0; 4] {
            s[0] = 1;
        }
        Self { s }
    }

    /// Independent stream for run `index` of batch `seed` and sub-stream `lane`.
    pub fn derive(seed: u64, index: u64, lane: u64) -> Self {
        let mut sm = seed ^ 0xA5A5_5A5A_0F0F_F0F0;
        let a = splitmix64(&mut sm);
        let mut sm2 = a ^ index.wrapping_mul(0x9E37_79B9_7F4A_7C15);
        let b = splitmix64(&mut sm2);
        let mut sm3 = b ^ lane.wrapping_mul(0xD1B5_4A32_D192_ED03);
        Self::new(splitmix64(&mut sm3))
    }

    pub fn next_u64(&mut self) -> u64 {
        let result = self.s[1].wrapping_mul(5).rotate_left(7).wrapping_mul(9);
        let t = self.s[1] << 17;
        self.s[2] ^= self.s[0];
        self.s[3] ^= self.s[1];
        self.s[1] ^= self.s[2];
        self.s[0] ^= self.s[3];
        self.s[2] ^= t;
        self.s[3] = self.s[3].rotate_left(45);
        result
    }

    /// Uniform in `0..n` (n > 0).
    pub fn below(&mut self, n: u64) -> u64 {
        debug_assert!(n > 0);
        // multiply-shift; bias is irrelevant for our purposes but keep it small
        ((self.next_u64() as u128 * n as u128) >> 64) as u64
    }

    pub fn usize_below(&mut self, n: usize) -> usize {
        self.below(n as u64) as usize
    }

    /// Uniform in `lo..=hi`.
    pub fn range(&mut self, lo: u64, hi: u64) -> u64 {
        debug_assert!(lo <= hi);
        lo + self.below(hi - lo + 1)
    }

    pub fn urange(&mut self, lo: usize, hi: usize) -> usize {
        self.range(lo as u64, hi as u64) as usize
    }

    /// True with probability `num/den`.
    pub fn chance(&mut self, num: u64, den: u64) -> bool {
        self.below(den) < num
    }

    pub fn coin(&mut self) -> bool {
        self.next_u64() & 1 == 1
    }

    pub fn pick<'a, T>(&mut self, items: &'a [T]) -> &'a T {
        &items[self.usize_below(items.len())]
    }

    /// Index drawn according to integer weights (at least one weight must be non-zero).
    pub fn weighted(&mut self, weights: &[u32]) -> usize {
        let total: u64 = weights.iter().map(|&w| w as u64).sum();
        debug_assert!(total > 0);
        let mut x = self.below(total);
        for (i, &w) in weights.iter().enumerate() {
            if x < w as u64 {
                return i;
            }
            x -= w as u64;
        }
        weights.len() - 1
    }

    pub fn shuffle<T>(&mut self, items: &mut [T]) {
        for i in (1..items.len()).rev() {
            let j = self.usize_below(i + 1);
            items.swap(i, j);
        }
    }

    pub fn bytes(&mut self, n: usize) -> Vec<u8> {
        let mut out = Vec::with_capacity(n);
        while out.len() < n {
            let v = self.next_u64().to_le_bytes();
            let take = (n - out.len()).min(8);
            out.extend_from_slice(&v[..take]);
        }
        out
    }
}

/// FNV-1a 64 implementing `std::hash::Hasher`: a fixed, process-independent hash for event
/// logs and coverage keys (std's default hasher is randomly keyed per process).
#[derive(Clone)]
pub struct Fnv(pub u64);

impl Default for Fnv {
    fn default() -> Self {
        Fnv(0xcbf2_9ce4_8422_2325)
    }
}

impl std::hash::Hasher for Fnv {
    fn finish(&self) -> u64 {
        self.0
    }
    fn write(&mut self, bytes: &[u8]) {
        for &b in bytes {
            self.0 ^= b as u64;
            self.0 = self.0.wrapping_mul(0x0000_0100_0000_01B3);
        }
    }
}

pub fn fnv_of<T: std::hash::Hash>(val: &T) -> u64 {
    use std::hash::Hasher;
    let mut h = Fnv::default();
    val.hash(&mut h);
    h.finish()
}
