//! Online scenario generation: the generator looks at the current world, draws the next
//! step from the PRNG, records it and executes it. Swarm style: every run first draws its
//! own configuration.

use crate::refcodec::{self as rc, pid, Form, Kind, Packet, PropVal, Props};
use crate::rng::Rng;
use crate::scenario::*;
use crate::spec::*;
use crate::world::*;
use std::collections::{BTreeMap, BTreeSet};

#[derive(Clone, Copy, Debug, PartialEq, Eq)]
pub enum ReadStyle {
    Whole,
    Bytes1,
    Small,
    Mixed,
}

#[derive(Clone, Debug)]
pub struct GenCfg {
    pub steps: usize,
    pub max_ops: usize,
    pub handles: usize,
    /// weights: publish QoS 0, 1, 2, subscribe, unsubscribe, ping
    pub w_ops: [u32; 6],
    pub receive_max: Option<u16>,
    pub max_packet: Option<u32>,
    pub session_expiry: Option<u32>,
    pub connack_session_expiry: Option<u32>,
    pub read_style: ReadStyle,
    pub hold_pct: u64,
    pub writer_tweaks: bool,
    pub gates: bool,
    pub spurious: bool,
    pub inbound: bool,
    pub inbound_unknown_ids: bool,
    pub inbound_absent_ids: bool,
    pub inbound_multi_ids: bool,
    pub redeliver: bool,
    pub all_reasons: bool,
    pub ack_props: bool,
    pub short_forms: bool,
    pub cancels: bool,
    pub drop_streams: bool,
    pub drain: bool,
    pub quota_probe: bool,
    pub select: SelectPolicy,
    pub scribble: bool,
    pub big_payloads: bool,
    pub preset_ids: Option<(u16, u32)>,
    pub ack_eagerness: u32,
    /// Run to quiescence after every step (no partial scheduling): makes the outcome a function
    /// of the event order only, as the differential framing oracle needs.
    pub always_settle: bool,
    /// Rich, shuffled property sets and boundary lengths on inbound packets (C02).
    pub rich: bool,
    /// Inbound PUBREL also with reason 0x92 and for identifiers never used (C08).
    pub pubrel_variants: bool,
    /// Percentage of publishes padded beyond the announced Maximum Packet Size.
    pub oversize_pct: u64,
    /// Reads return everything available (several delivered chunks at once).
    pub coalesce: bool,
    /// The client's own CONNECT Receive Maximum / Maximum Packet Size (limits for the server).
    pub own_receive_max: Option<u16>,
    pub own_max_packet: Option<u32>,
    pub own_topic_alias_max: Option<u16>,
    /// Executor honours only the waker of the most recent poll (see Config).
    pub strict_wakers: bool,
    /// The first CONNACK says Session Present = 1 (the server kept a session of this client
    /// identifier from an earlier life; clean start is never requested by these profiles).
    pub session_present_first: bool,
}

impl GenCfg {
    /// Deeper variant for the thorough tier: four times the steps, three times the operations.
    pub fn deepen(&mut self) {
        self.steps *= 4;
        self.max_ops = (self.max_ops * 3).min(40);
    }

    /// Conformant operations profile with per-run variation.
    pub fn conformant(rng: &mut Rng) -> GenCfg {
        let read_style = *rng.pick(&[ReadStyle::Whole, ReadStyle::Whole, ReadStyle::Bytes1, ReadStyle::Small, ReadStyle::Mixed]);
        GenCfg {
            steps: rng.urange(12, 70),
            max_ops: rng.urange(1, 12),
            handles: rng.urange(1, 4),
            w_ops: [
                rng.range(0, 3) as u32,
                rng.range(1, 4) as u32,
                rng.range(1, 4) as u32,
                rng.range(0, 3) as u32,
                rng.range(0, 2) as u32,
                rng.range(0, 3) as u32,
            ],
            receive_max: if rng.chance(1, 3) { Some(rng.range(1, 12) as u16) } else { None },
            max_packet: None,
            session_expiry: None,
            connack_session_expiry: None,
            read_style,
            hold_pct: *rng.pick(&[0, 0, 30, 60]),
            writer_tweaks: rng.chance(1, 3),
            gates: rng.chance(1, 4),
            spurious: false,
            inbound: false,
            inbound_unknown_ids: false,
            inbound_absent_ids: false,
            inbound_multi_ids: false,
            redeliver: false,
            all_reasons: rng.chance(2, 3),
            ack_props: rng.chance(2, 3),
            short_forms: rng.chance(1, 2),
            cancels: false,
            drop_streams: false,
            drain: rng.chance(1, 2),
            quota_probe: false,
            select: match rng.below(3) {
                0 => SelectPolicy::PacketFirst,
                1 => SelectPolicy::MessageFirst,
                _ => SelectPolicy::Hashed(rng.next_u64()),
            },
            scribble: false,
            big_payloads: rng.chance(1, 6),
            preset_ids: None,
            ack_eagerness: rng.range(1, 6) as u32,
            always_settle: false,
            rich: false,
            pubrel_variants: false,
            oversize_pct: 0,
            coalesce: rng.chance(1, 4),
            own_receive_max: None,
            own_max_packet: None,
            own_topic_alias_max: None,
            session_present_first: false,
            strict_wakers: false,
        }
    }

    /// Inbound traffic profile (subscriptions, server PUBLISH / PUBREL, streams).
    pub fn inbound(rng: &mut Rng) -> GenCfg {
        let mut c = GenCfg::conformant(rng);
        c.inbound = true;
        c.w_ops = [rng.range(0, 1) as u32, rng.range(0, 2) as u32, rng.range(0, 1) as u32, 4, rng.range(0, 2) as u32, rng.range(0, 1) as u32];
        c.max_ops = rng.urange(2, 8);
        c.inbound_unknown_ids = rng.chance(1, 2);
        c.inbound_absent_ids = rng.chance(1, 2);
        c.inbound_multi_ids = rng.chance(1, 3);
        c.drop_streams = rng.chance(1, 3);
        // the server's Receive Maximum limits what the client sends, never what it receives:
        // small values next to bursts of unreleased inbound QoS 2 messages
        c.receive_max = if rng.chance(1, 3) { Some(rng.range(1, 3) as u16) } else { None };
        // one run in three allows the server to use topic aliases (messages with an empty topic)
        c.own_topic_alias_max = if rng.chance(1, 3) { Some(rng.range(1, 20) as u16) } else { None };
        c
    }
}

#[derive(Clone, Copy, Debug, PartialEq, Eq)]
enum Stage {
    None,
    PubrecOk,
    PubrecFail,
    Final,
}

pub struct Gen<'a> {
    pub cfg: GenCfg,
    pub rng: &'a mut Rng,
    pub world: World,
    pub steps: Vec<Step>,
    stage: BTreeMap<usize, Stage>,
    pingresp_sent: usize,
    uniq: u64,
    opened: BTreeSet<usize>,
    dropped_streams: BTreeSet<usize>,
    cancelled: BTreeSet<usize>,
    inbound_count: usize,
    /// inbound QoS 2 publishes (index in injection order) not yet released by the broker
    unreleased: Vec<usize>,
    pub config: Config,
    /// Deliver the next broker packets whole and at once (set around steps that must arrive).
    pub force_whole: bool,
    id_jumped: bool,
    last_qos1: Option<usize>,
}

impl<'a> Gen<'a> {
    pub fn new(cfg: GenCfg, rng: &'a mut Rng) -> Gen<'a> {
        let config = Config {
            select: cfg.select,
            sweep: false,
            scribble: cfg.scribble,
            handles: cfg.handles,
            preset_ids: cfg.preset_ids,
            coalesce: cfg.coalesce,
            strict_wakers: cfg.strict_wakers,
        };
        let world = World::new(config.clone());
        Gen {
            cfg,
            rng,
            world,
            steps: Vec::new(),
            stage: BTreeMap::new(),
            pingresp_sent: 0,
            uniq: 0,
            opened: BTreeSet::new(),
            dropped_streams: BTreeSet::new(),
            cancelled: BTreeSet::new(),
            inbound_count: 0,
            unreleased: Vec::new(),
            config,
            force_whole: false,
            id_jumped: false,
            last_qos1: None,
        }
    }

    pub fn push(&mut self, s: Step) {
        self.world.exec(&s);
        self.steps.push(s);
    }

    pub fn settle(&mut self) {
        let seed = self.rng.next_u64();
        self.push(Step::Settle { seed });
    }

    pub fn chunks(&mut self, len: usize) -> Chunks {
        let style = match self.cfg.read_style {
            ReadStyle::Mixed => *self.rng.pick(&[ReadStyle::Whole, ReadStyle::Bytes1, ReadStyle::Small]),
            s => s,
        };
        match style {
            ReadStyle::Whole | ReadStyle::Mixed => Chunks::Whole,
            ReadStyle::Bytes1 => Chunks::Each(1),
            ReadStyle::Small => {
                let mut sizes = Vec::new();
                let mut left = len;
                while left > 0 && sizes.len() < 6 {
                    let s = self.rng.urange(1, left.min(9));
                    sizes.push(s);
                    left -= s;
                }
                Chunks::Sizes(sizes)
            }
        }
    }

    pub fn broker(&mut self, pkt: BrokerPkt) {
        if self.force_whole {
            self.push(Step::Broker { pkt, chunks: Chunks::Whole, hold: false });
            return;
        }
        let chunks = self.chunks(16);
        let hold = self.cfg.hold_pct > 0 && self.rng.below(100) < self.cfg.hold_pct;
        self.push(Step::Broker { pkt, chunks, hold });
    }

    pub fn connack_props(&self) -> Props {
        let mut p = Props::new();
        if let Some(r) = self.cfg.receive_max {
            p.push(pid::RECEIVE_MAXIMUM, PropVal::U16(r));
        }
        if let Some(m) = self.cfg.max_packet {
            p.push(pid::MAXIMUM_PACKET_SIZE, PropVal::U32(m));
        }
        if let Some(s) = self.cfg.connack_session_expiry {
            p.push(pid::SESSION_EXPIRY, PropVal::U32(s));
        }
        p
    }

    pub fn connect_spec(&self) -> ConnectSpec {
        // the client's own receive-side limits (what it asks of the server) must never govern
        // what the client itself sends
        ConnectSpec {
            client_id: Some("sim".into()),
            session_expiry: self.cfg.session_expiry,
            receive_maximum: self.cfg.own_receive_max,
            maximum_packet_size: self.cfg.own_max_packet,
            topic_alias_maximum: self.cfg.own_topic_alias_max,
            ..Default::default()
        }
    }

    /// Start, CONNACK, settle: the client is serving afterwards. One run in eight gets there
    /// through an extended authentication exchange (the CONNACK is then received by
    /// `authorize()`, which has its own copy of the CONNACK handling).
    pub fn preamble(&mut self) {
        let mut connect = self.connect_spec();
        let rounds = if self.rng.chance(1, 8) { self.rng.urange(1, 2) } else { 0 };
        let mut auths = vec![];
        if rounds > 0 {
            connect.auth_method = Some("SIM".into());
            connect.auth_data = Some(vec![0]);
            auths = (0..rounds).map(|i| AuthSpec { reason: Some(0x18), method: Some("SIM".into()), data: Some(vec![i as u8]), user: vec![] }).collect();
        }
        self.push(Step::Start { connect, auths });
        self.settle();
        for i in 0..rounds {
            let props = Props::new().with(pid::AUTH_METHOD, PropVal::Str("SIM".into())).with(pid::AUTH_DATA, PropVal::Bin(vec![100 + i as u8]));
            let chunks = self.chunks(12);
            self.push(Step::Broker { pkt: BrokerPkt::Auth { reason: 0x18, props, form: Form::Full }, chunks, hold: false });
            self.settle();
        }
        let props = self.connack_props();
        let chunks = self.chunks(8);
        let session_present = self.cfg.session_present_first;
        self.push(Step::Broker { pkt: BrokerPkt::Connack { session_present, reason: 0, props }, chunks, hold: false });
        self.settle();
    }

    /// A first connection that dies in the middle of an inbound packet (some of its bytes were
    /// read, the rest never came). Whatever follows starts with `Step::Reconnect` on the same
    /// Context: nothing of the dead connection's byte stream may leak into the new one.
    pub fn cut_connection_prelude(&mut self) {
        let connect = ConnectSpec { client_id: Some("sim".into()), ..Default::default() };
        self.push(Step::Start { connect, auths: vec![] });
        self.settle();
        self.push(Step::Broker { pkt: BrokerPkt::Connack { session_present: false, reason: 0, props: Props::new() }, chunks: Chunks::Whole, hold: false });
        self.settle();
        let n = self.rng.urange(0, 40);
        let mut payload = b"cut:".to_vec();
        payload.extend(self.rng.bytes(n));
        let first = self.rng.urange(1, 8);
        self.inbound_count += 1;
        self.push(Step::Broker {
            pkt: BrokerPkt::Publish { subs: vec![], qos: 0, id: IdSpec::Fresh, dup: false, retain: false, topic: "in/cut".into(), payload, props: Props::new() },
            chunks: Chunks::Each(first),
            hold: true,
        });
        self.push(Step::Deliver { n: 1 });
        self.settle();
        self.push(Step::Fault(FaultKind::ReadEof));
        self.settle();
    }

    pub fn next_op_id(&self) -> usize {
        self.world.ops.keys().next_back().map(|k| k + 1).unwrap_or(0)
    }

    fn uniq(&mut self) -> u64 {
        self.uniq += 1;
        self.uniq
    }

    pub fn new_op_spec(&mut self, kind: usize, op: usize) -> OpSpec {
        let payload = {
            let oversize = self.cfg.oversize_pct > 0 && self.rng.below(100) < self.cfg.oversize_pct;
            let n = if oversize {
                self.cfg.max_packet.unwrap_or(60) as usize + self.rng.urange(1, 40)
            } else if self.cfg.big_payloads && self.cfg.max_packet.is_none() && self.rng.chance(1, 3) {
                self.rng.urange(400, 1500)
            } else {
                self.rng.urange(0, 12)
            };
            let mut b = format!("p{op}:").into_bytes();
            b.extend(self.rng.bytes(n));
            b
        };
        match kind {
            0 | 1 | 2 => {
                let mut spec = OpSpec::Publish(PublishSpec {
                    qos: Some(kind as u8),
                    retain: if self.rng.chance(1, 4) { Some(true) } else { None },
                    topic: Some(format!("t/{op}")),
                    payload: Some(payload),
                    user: if self.rng.chance(1, 5) { vec![("k".into(), format!("{op}"))] } else { vec![] },
                    ..Default::default()
                });
                if self.cfg.max_packet.is_none() && self.cfg.oversize_pct == 0 && self.rng.chance(1, 25) {
                    // the packet's Remaining Length lands on an encoding boundary of the variable
                    // byte integer: 127 | 128 and 16383 | 16384 | 16385
                    let total = *self.rng.pick(&[129usize, 131, 132, 16_386, 16_388, 16_389]);
                    crate::profiles::pad_to(&mut spec, total, self.rng);
                }
                spec
            }
            3 => {
                let n = self.rng.urange(1, 3);
                let filters = (0..n)
                    .map(|i| (format!("f/{op}/{i}"), SubOptSpec { qos: Some(self.rng.below(3) as u8), ..Default::default() }))
                    .collect();
                OpSpec::Subscribe(SubscribeSpec { filters, user: vec![] })
            }
            4 => {
                let n = self.rng.urange(1, 2);
                OpSpec::Unsubscribe(UnsubscribeSpec { filters: (0..n).map(|i| format!("u/{op}/{i}")).collect(), user: vec![] })
            }
            _ => OpSpec::Ping,
        }
    }

    fn ack_extras(&mut self, allow_short: bool) -> (Props, Form) {
        let mut props = Props::new();
        if self.cfg.ack_props && self.rng.chance(2, 3) {
            let u = self.uniq();
            let mut rs = format!("rs{u}");
            if self.cfg.rich && self.rng.chance(1, 6) {
                let n = *self.rng.pick(&[120usize, 127, 128, 16_383, 16_384]);
                rs.push_str(&"r".repeat(n));
            }
            props.push(pid::REASON_STRING, PropVal::Str(rs));
            if self.rng.coin() {
                props.push(pid::USER_PROPERTY, PropVal::Pair(format!("k{u}"), format!("v{u}")));
                if self.rng.chance(1, 3) {
                    props.push(pid::USER_PROPERTY, PropVal::Pair(format!("k{u}"), format!("w{u}")));
                }
            }
        }
        let form = if allow_short && self.cfg.short_forms && props.is_empty() {
            *self.rng.pick(&[Form::Full, Form::Shortest, Form::ReasonOnly])
        } else {
            Form::Full
        };
        (props, form)
    }

    fn reason_for(&mut self, kind: Kind) -> u8 {
        if self.cfg.all_reasons && self.rng.chance(1, 2) {
            *self.rng.pick(rc::reason_codes(kind))
        } else {
            0
        }
    }

    fn pubrel_on_wire(&self, op: usize) -> bool {
        self.world.pubrel_on_wire(op)
    }

    /// Forgets that an acknowledgement was sent (it was lost with the connection).
    pub fn rollback_stage(&mut self, op: usize, kind: AckKind) {
        let st = match kind {
            AckKind::Pubcomp => Stage::PubrecOk,
            _ => Stage::None,
        };
        self.stage.insert(op, st);
    }

    /// Acknowledgements a conformant broker could send now: (op, kind).
    pub fn ack_candidates(&self) -> Vec<(usize, AckKind)> {
        let mut out = Vec::new();
        for (&op, info) in self.world.ops.iter() {
            if !self.world.op_pid.contains_key(&op) {
                continue;
            }
            let st = *self.stage.get(&op).unwrap_or(&Stage::None);
            match (&info.spec, st) {
                (OpSpec::Publish(p), Stage::None) if p.qos == Some(1) => out.push((op, AckKind::Puback)),
                (OpSpec::Publish(p), Stage::None) if p.qos == Some(2) => out.push((op, AckKind::Pubrec)),
                (OpSpec::Publish(p), Stage::PubrecOk) if p.qos == Some(2) && self.pubrel_on_wire(op) => {
                    out.push((op, AckKind::Pubcomp))
                }
                (OpSpec::Subscribe(_), Stage::None) => out.push((op, AckKind::Suback)),
                (OpSpec::Unsubscribe(_), Stage::None) => out.push((op, AckKind::Unsuback)),
                _ => {}
            }
        }
        out
    }

    /// The broker script will never acknowledge `op` (its session is gone).
    pub fn mark_final(&mut self, op: usize) {
        self.stage.insert(op, Stage::Final);
    }

    pub fn send_ack(&mut self, op: usize, kind: AckKind) {
        let (reasons, next) = match kind {
            AckKind::Puback => (vec![self.reason_for(Kind::Puback)], Stage::Final),
            AckKind::Pubrec => {
                let r = self.reason_for(Kind::Pubrec);
                (vec![r], if r >= 0x80 { Stage::PubrecFail } else { Stage::PubrecOk })
            }
            AckKind::Pubcomp => (vec![self.reason_for(Kind::Pubcomp)], Stage::Final),
            AckKind::Suback => {
                let n = match &self.world.ops[&op].spec {
                    OpSpec::Subscribe(s) => s.filters.len(),
                    _ => 1,
                };
                ((0..n).map(|_| self.reason_for(Kind::Suback)).collect(), Stage::Final)
            }
            AckKind::Unsuback => {
                let n = match &self.world.ops[&op].spec {
                    OpSpec::Unsubscribe(s) => s.filters.len(),
                    _ => 1,
                };
                ((0..n).map(|_| self.reason_for(Kind::Unsuback)).collect(), Stage::Final)
            }
        };
        let short_ok = matches!(kind, AckKind::Puback | AckKind::Pubrec | AckKind::Pubcomp);
        let (props, form) = self.ack_extras(short_ok);
        self.stage.insert(op, next);
        self.broker(BrokerPkt::Ack { op, kind, reasons, props, form });
    }

    fn subs_on_wire(&self) -> Vec<usize> {
        self.world.op_subid.keys().copied().collect()
    }

    pub fn inbound_publish(&mut self) {
        let subs_known = self.subs_on_wire();
        let mut subs = Vec::new();
        let roll = self.rng.below(10);
        if !subs_known.is_empty() && roll < 7 {
            subs.push(SubRef::Op(*self.rng.pick(&subs_known)));
            if self.cfg.inbound_multi_ids && subs_known.len() > 1 && self.rng.chance(1, 3) {
                let other = *self.rng.pick(&subs_known);
                if !subs.contains(&SubRef::Op(other)) {
                    subs.push(SubRef::Op(other));
                }
            }
        } else if self.cfg.inbound_unknown_ids && roll < 9 {
            let raw = if self.cfg.rich && self.rng.coin() {
                *self.rng.pick(&[16_383u32, 16_384, 2_097_151, 2_097_152, 268_435_455])
            } else {
                1000 + self.rng.below(5000) as u32
            };
            subs.push(SubRef::Raw(raw));
        } else if !self.cfg.inbound_absent_ids {
            if subs_known.is_empty() {
                return;
            }
            subs.push(SubRef::Op(*self.rng.pick(&subs_known)));
        }
        let qos = self.rng.below(3) as u8;
        let n = self.inbound_count;
        let mut id = IdSpec::Fresh;
        let mut dup = false;
        if qos == 2 && self.cfg.redeliver && !self.unreleased.is_empty() && self.rng.chance(1, 2) {
            // re-delivery of an unreleased QoS 2 message: same identifier, same content
            let j = *self.rng.pick(&self.unreleased.clone());
            if let Some(Step::Broker { pkt: BrokerPkt::Publish { subs, qos, retain, topic, payload, props, .. }, .. }) =
                self.nth_inbound_publish_step(j).cloned()
            {
                let dup = self.rng.chance(3, 4);
                self.inbound_count += 1;
                self.broker(BrokerPkt::Publish { subs, qos, id: IdSpec::SameAs(j), dup, retain, topic, payload, props });
                return;
            }
        }
        if qos == 1 && self.rng.chance(1, 6) {
            // the broker sends a QoS 1 message again (same identifier and content, DUP=1), e.g.
            // because it has not seen the PUBACK yet: at-least-once, so it is delivered again
            if let Some(j) = self.last_qos1 {
                if let Some(Step::Broker { pkt: BrokerPkt::Publish { subs, qos, retain, topic, payload, props, .. }, .. }) = self.nth_inbound_publish_step(j).cloned() {
                    // (huge messages are not sent twice: in small chunks they cost seconds)
                    if payload.len() <= 10_000 {
                        self.inbound_count += 1;
                        self.broker(BrokerPkt::Publish { subs, qos, id: IdSpec::SameAs(j), dup: true, retain, topic, payload, props });
                        return;
                    }
                }
            }
        }
        if qos > 0 && self.rng.chance(1, 8) {
            dup = true;
        }
        if qos > 0 && self.cfg.redeliver && self.rng.chance(1, 2) {
            // identifier reuse as soon as the previous exchange is complete
            id = IdSpec::LowestFree;
        }
        if qos > 0 && self.rng.chance(1, 10) {
            id = IdSpec::Raw(self.rng.range(1, 65535) as u16);
            if qos == 2 {
                // keep QoS 2 identifiers unambiguous for the re-delivery model
                id = IdSpec::Fresh;
            }
        }
        let mut props = Props::new();
        if self.cfg.rich {
            props = crate::codec::rich_publish_props(self.rng);
        } else {
            if self.rng.chance(1, 4) {
                props.push(pid::CONTENT_TYPE, PropVal::Str(format!("ct{n}")));
            }
            if self.rng.chance(1, 4) {
                props.push(pid::USER_PROPERTY, PropVal::Pair("n".into(), format!("{n}")));
            }
            if self.rng.chance(1, 8) {
                // an empty binary value as the very last property of the packet
                props.push(pid::CORRELATION_DATA, PropVal::Bin(vec![]));
            } else if self.rng.chance(1, 6) {
                // opaque binary data: any byte values, zero bytes included (the "no null
                // character" rule is for UTF-8 strings only)
                let k = self.rng.urange(1, 6);
                let mut b = self.rng.bytes(k);
                if self.rng.coin() {
                    let at = self.rng.usize_below(b.len());
                    b[at] = 0;
                }
                props.push(pid::CORRELATION_DATA, PropVal::Bin(b));
            }
        }
        let plen = if self.cfg.rich && self.rng.chance(1, 400) {
            // remaining length of 3 or 4 bytes
            *self.rng.pick(&[16_400usize, 70_000, 2_097_152, 2_100_000])
        } else if self.cfg.big_payloads && self.rng.chance(1, 4) {
            self.rng.urange(480, 1100)
        } else {
            self.rng.urange(0, 10)
        };
        let mut payload = format!("m{n}:").into_bytes();
        payload.extend(self.rng.bytes(plen));
        if qos == 2 {
            self.unreleased.push(n);
        }
        if qos == 1 {
            self.last_qos1 = Some(n);
        }
        self.inbound_count += 1;
        let retain = self.rng.chance(1, 5);
        if plen > 10_000 {
            // huge packets are delivered in large reads only (a 2 MiB packet in 1-byte chunks
            // would cost seconds per run)
            let chunks = if self.rng.coin() { Chunks::Whole } else { Chunks::Each(65_536) };
            self.push(Step::Broker { pkt: BrokerPkt::Publish { subs, qos, id, dup, retain, topic: format!("in/{n}"), payload, props }, chunks, hold: false });
            return;
        }
        let mut topic = format!("in/{n}");
        if self.cfg.own_topic_alias_max.is_some() && self.rng.chance(1, 8) {
            // a message sent under a topic alias only: empty Topic Name plus the alias (legal
            // once the client has announced a Topic Alias Maximum)
            topic = String::new();
            if props.u16(pid::TOPIC_ALIAS).is_none() {
                let alias = self.rng.range(1, self.cfg.own_topic_alias_max.unwrap_or(1) as u64) as u16;
                props.push(pid::TOPIC_ALIAS, PropVal::U16(alias));
            }
        }
        self.broker(BrokerPkt::Publish { subs, qos, id, dup, retain, topic, payload, props });
    }

    /// Inbound QoS 2 publishes (injection index) the broker script has not released yet.
    pub fn unreleased_inbound(&self) -> Vec<usize> {
        self.unreleased.clone()
    }

    /// A *new* QoS 2 message for subscription `op` that reuses the identifier of inbound
    /// publish number `j` (legal once the session that knew the identifier is gone).
    pub fn inbound_qos2_reusing(&mut self, op: usize, j: usize) {
        let n = self.inbound_count;
        self.inbound_count += 1;
        self.unreleased.retain(|x| *x != j);
        self.unreleased.push(n);
        self.broker(BrokerPkt::Publish {
            subs: vec![SubRef::Op(op)],
            qos: 2,
            id: IdSpec::SameAs(j),
            dup: false,
            retain: false,
            topic: format!("in/{n}"),
            payload: format!("m{n}:new-session").into_bytes(),
            props: Props::new(),
        });
    }

    /// One small QoS 0 message addressed to the subscription of operation `op`.
    pub fn inbound_publish_to(&mut self, op: usize) {
        let n = self.inbound_count;
        self.inbound_count += 1;
        self.broker(BrokerPkt::Publish {
            subs: vec![SubRef::Op(op)],
            qos: 0,
            id: IdSpec::Fresh,
            dup: false,
            retain: false,
            topic: format!("in/{n}"),
            payload: format!("m{n}:").into_bytes(),
            props: Props::new(),
        });
    }

    /// Brings identifiers that collide under truncation (low byte, high byte, 15 bits) next to
    /// each other: while an operation with identifier k awaits its acknowledgement, the counter
    /// jumps so that the next operation gets k+256, k+512, k+0x8000 or byte-swapped k. At most
    /// once per scenario (identifiers used so far form one contiguous range, which the target
    /// must stay clear of: the property's proviso is the harness's duty here).
    pub fn id_jump(&mut self) {
        if self.id_jumped {
            return;
        }
        let waiting: Vec<u16> = self.ack_candidates().iter().filter_map(|(op, _)| self.world.op_pid.get(op).copied()).collect();
        if waiting.is_empty() {
            return;
        }
        let used: Vec<u16> = self.world.wire.iter().filter_map(|w| w.pkt.pid()).collect();
        let (lo, hi) = (*used.iter().min().unwrap() as u32, *used.iter().max().unwrap() as u32);
        let k = *self.rng.pick(&waiting) as u32;
        let cands = [k + 256, k + 512, k + 0x8000, ((k & 0xff) << 8) | (k >> 8), k + 0x4000, k + 128];
        let ok: Vec<u32> = cands.iter().copied().filter(|c| *c >= 1 && *c < 65_000 && (*c > hi + 40 || *c + 40 < lo)).collect();
        if ok.is_empty() {
            return;
        }
        let target = *self.rng.pick(&ok) as u16;
        let max_sub = self.world.op_subid.values().copied().max().unwrap_or(0);
        self.id_jumped = true;
        self.push(Step::SetNextIds { packet_id: target, sub_id: max_sub + 1000 });
        // the operation that takes the colliding identifier, acknowledged ahead of the older one
        let id = self.next_op_id();
        let kind = if self.rng.coin() { 1 } else { 2 };
        let spec = self.new_op_spec(kind, id);
        self.push(Step::Op { id, handle: 0, spec });
        self.settle();
        if self.rng.chance(2, 3) {
            let want = if kind == 1 { AckKind::Puback } else { AckKind::Pubrec };
            if self.ack_candidates().contains(&(id, want)) {
                self.send_ack(id, want);
                self.settle();
            }
        }
    }

    /// The identifier of a finished exchange - typically one whose caller had gone away and whose
    /// late acknowledgement was absorbed - comes round again, as it does after a full cycle of
    /// 65535 allocations: its new owner must complete on its own acknowledgement, whatever the
    /// earlier exchange left behind.
    pub fn id_comes_round(&mut self) -> bool {
        let finished: Vec<(usize, u16)> = self
            .world
            .ops
            .iter()
            .filter(|(i, info)| {
                matches!(&info.spec, OpSpec::Publish(p) if p.qos == Some(1) || p.qos == Some(2))
                    && self.stage.get(*i) == Some(&Stage::Final)
                    && !self.world.is_live(TaskRef::Op(**i))
            })
            .filter_map(|(i, _)| self.world.op_pid.get(i).map(|p| (*i, *p)))
            .collect();
        if finished.is_empty() {
            return false;
        }
        let (_, x) = *self.rng.pick(&finished);
        // nobody else may hold x, and the counter must be put back beyond everything in use
        let holders = self.world.op_pid.iter().filter(|(i, p)| **p == x && self.stage.get(*i) != Some(&Stage::Final)).count();
        let hi = self.world.op_pid.values().copied().max().unwrap_or(0);
        if holders > 0 || hi >= 65_000 {
            return false;
        }
        let max_sub = self.world.op_subid.values().copied().max().unwrap_or(0);
        self.push(Step::SetNextIds { packet_id: x, sub_id: max_sub + 1000 });
        let id = self.next_op_id();
        let kind = if self.rng.chance(2, 3) { 1 } else { 2 };
        let spec = self.new_op_spec(kind, id);
        self.push(Step::Op { id, handle: 0, spec });
        self.settle();
        self.push(Step::SetNextIds { packet_id: hi + 1, sub_id: max_sub + 2000 });
        if self.world.op_pid.get(&id) != Some(&x) {
            return true; // (refused locally, or not reached the wire yet: nothing more to script)
        }
        if self.rng.chance(2, 3) {
            let want = if kind == 1 { AckKind::Puback } else { AckKind::Pubrec };
            if self.ack_candidates().contains(&(id, want)) {
                self.send_ack(id, want);
                self.settle();
            }
        }
        true
    }

    /// A burst of messages for one subscription, sized next to small powers of two (budgets,
    /// batch sizes and ring buffers live there).
    pub fn burst(&mut self) {
        let subs = self.subs_on_wire();
        if subs.is_empty() {
            return;
        }
        let sub = *self.rng.pick(&subs);
        let mut n = *self.rng.pick(&[15usize, 16, 17, 31, 32, 33, 63, 64, 65, 100, 130]);
        if self.rng.chance(1, 30) {
            // rarely a backlog beyond a thousand (bounded queues, u8/u10 counters)
            n = *self.rng.pick(&[255usize, 256, 257, 1023, 1024, 1025, 1026, 1100]);
        }
        for _ in 0..n {
            self.inbound_publish_to(sub);
        }
    }

    /// A PUBLISH whose encoding is exactly 512 (or 1024) bytes long, delivered in one read while
    /// the client's buffer is empty: the read is filled exactly by a complete packet.
    pub fn inbound_exact_fill(&mut self) {
        let subs = self.subs_on_wire();
        let total = *self.rng.pick(&[512usize, 512, 1024]);
        let qos = self.rng.below(2) as u8;
        let n = self.inbound_count;
        let sub_ref: Vec<SubRef> = if subs.is_empty() { vec![] } else { vec![SubRef::Op(*self.rng.pick(&subs))] };
        let sid = sub_ref.first().and_then(|s| if let SubRef::Op(op) = s { self.world.op_subid.get(op).copied() } else { None });
        let topic = format!("in/{n}");
        // measure with the reference encoder (the packet identifier is two bytes whatever it is)
        let mut len = total.saturating_sub(20);
        for _ in 0..8 {
            let mut props = Props::new();
            if let Some(sid) = sid {
                props.push(pid::SUBSCRIPTION_ID, PropVal::VarInt(sid));
            }
            let p = Packet::Publish(crate::refcodec::Publish { dup: false, qos, retain: false, topic: topic.clone(), pid: if qos > 0 { Some(1) } else { None }, props, payload: vec![0; len] });
            let l = crate::refcodec::encode(&p).len();
            if l == total {
                break;
            }
            len = (len as i64 + total as i64 - l as i64).max(0) as usize;
        }
        let mut payload = format!("m{n}:").into_bytes();
        payload.resize(len.max(payload.len()), b'=');
        self.inbound_count += 1;
        self.push(Step::Broker { pkt: BrokerPkt::Publish { subs: sub_ref, qos, id: IdSpec::Fresh, dup: false, retain: false, topic, payload, props: Props::new() }, chunks: Chunks::Whole, hold: false });
    }

    /// Subscriptions on the wire whose stream has not been opened yet.
    pub fn unopened_subs(&self) -> Vec<usize> {
        self.subs_on_wire().into_iter().filter(|s| !self.opened.contains(s)).collect()
    }

    /// Subscriptions whose stream has been opened and is still being consumed.
    pub fn live_streams(&self) -> Vec<usize> {
        self.opened.iter().copied().filter(|s| self.world.is_live(TaskRef::Consumer(*s))).collect()
    }

    pub fn opened_contains(&self, op: usize) -> bool {
        self.opened.contains(&op)
    }

    /// Opens the stream of a subscription (bookkeeping shared with the random actions).
    pub fn open_stream(&mut self, op: usize) {
        self.opened.insert(op);
        self.push(Step::OpenStream(op));
    }

    fn nth_inbound_publish_step(&self, n: usize) -> Option<&Step> {
        self.steps
            .iter()
            .filter(|s| matches!(s, Step::Broker { pkt: BrokerPkt::Publish { .. }, .. }))
            .nth(n)
    }

    pub fn inbound_pubrel(&mut self) -> bool {
        if self.cfg.pubrel_variants && self.rng.chance(1, 4) {
            // a PUBREL the client has no record of: unknown identifier and/or failing reason
            let id = self.rng.range(1, 65_535) as u16;
            let reason = if self.rng.coin() { 0x92 } else { 0 };
            let (props, form) = self.ack_extras(reason == 0);
            self.broker(BrokerPkt::Pubrel { id: IdSpec::Raw(id), reason, props, form });
            return true;
        }
        if self.unreleased.is_empty() {
            return false;
        }
        let k = self.rng.usize_below(self.unreleased.len());
        let j = self.unreleased.remove(k);
        let reason = if self.cfg.pubrel_variants && self.rng.chance(1, 4) { 0x92 } else { 0 };
        let (props, form) = self.ack_extras(reason == 0);
        self.broker(BrokerPkt::Pubrel { id: IdSpec::SameAs(j), reason, props, form });
        true
    }

    fn live_ops(&self) -> Vec<usize> {
        self.world.ops.keys().copied().filter(|&i| self.world.is_live(TaskRef::Op(i))).collect()
    }

    /// One main-loop action.
    pub fn action(&mut self) {
        let acks = self.ack_candidates();
        let pings_pending = self.world.wire.iter().filter(|p| matches!(p.pkt, Packet::Pingreq)).count() > self.pingresp_sent;
        let can_op = self.world.ops.len() < self.cfg.max_ops && self.cfg.w_ops.iter().any(|&w| w > 0);
        let held = self.world.pipe().map(|p| !p.held.is_empty()).unwrap_or(false);
        let subs_ready: Vec<usize> = self
            .world
            .ops
            .keys()
            .copied()
            .filter(|i| self.world.has_sub_rsp(*i) && !self.opened.contains(i) && !self.dropped_streams.contains(i))
            .collect();
        let wblocked = self.world.pipe().map(|p| p.wblock_after.is_some()).unwrap_or(false);
        let weights: [u32; 13] = [
            if can_op { 6 } else { 0 },                                                  // 0 new op
            if self.cfg.always_settle { 0 } else { 8 },                                  // 1 run one
            3,                                                                           // 2 settle
            if acks.is_empty() { 0 } else { self.cfg.ack_eagerness * 2 },                // 3 ack
            if pings_pending { 3 } else { 0 },                                           // 4 pingresp
            if self.cfg.inbound { 6 } else { 0 },                                        // 5 inbound publish
            if self.cfg.inbound && (!self.unreleased.is_empty() || self.cfg.pubrel_variants) { 3 } else { 0 }, // 6 pubrel
            if subs_ready.is_empty() { 0 } else { 4 },                                   // 7 open stream
            if held { 6 } else { 0 },                                                    // 8 deliver
            if self.cfg.writer_tweaks { 2 } else { 0 },                                  // 9 writer tweak
            if self.cfg.gates { 1 } else { 0 },                                          // 10 read gate
            if self.cfg.spurious { 3 } else { 0 },                                       // 11 spurious poll
            if self.cfg.cancels || self.cfg.drop_streams { 2 } else { 0 },               // 12 cancel / drop stream
        ];
        let choice = self.rng.weighted(&weights);
        self.do_action(choice, acks, subs_ready, wblocked);
        if self.cfg.always_settle && choice != 2 {
            self.settle();
        }
    }

    fn do_action(&mut self, choice: usize, acks: Vec<(usize, AckKind)>, subs_ready: Vec<usize>, wblocked: bool) {
        match choice {
            0 => {
                let kind = self.rng.weighted(&self.cfg.w_ops);
                let op = self.next_op_id();
                let spec = self.new_op_spec(kind, op);
                let handle = self.rng.usize_below(self.cfg.handles.max(1));
                self.push(Step::Op { id: op, handle, spec });
            }
            1 => {
                let pick = self.rng.usize_below(8);
                self.push(Step::RunOne { pick });
            }
            2 => self.settle(),
            3 => {
                let (op, kind) = acks[self.rng.usize_below(acks.len())];
                self.send_ack(op, kind);
            }
            4 => {
                self.pingresp_sent += 1;
                self.broker(BrokerPkt::Pingresp);
            }
            5 => self.inbound_publish(),
            6 => {
                self.inbound_pubrel();
            }
            7 => {
                let s = subs_ready[self.rng.usize_below(subs_ready.len())];
                self.opened.insert(s);
                self.push(Step::OpenStream(s));
            }
            8 => {
                let n = self.rng.urange(1, 4);
                self.push(Step::Deliver { n });
            }
            9 => {
                if wblocked {
                    self.push(Step::WriterReady);
                } else if self.rng.coin() {
                    let sizes = (0..self.rng.urange(1, 3)).map(|_| self.rng.urange(1, 7)).collect();
                    self.push(Step::WriterSizes { sizes });
                } else {
                    let after = self.rng.urange(0, 20);
                    self.push(Step::WriterBlock { after });
                }
            }
            10 => self.push(Step::ReadGate),
            11 => {
                let pick = self.rng.usize_below(8);
                self.push(Step::Spurious { pick });
            }
            _ => {
                let live = self.live_ops();
                let streams: Vec<usize> = self.opened.iter().copied().filter(|s| !self.dropped_streams.contains(s)).collect();
                if self.cfg.cancels && !live.is_empty() && (self.rng.coin() || !self.cfg.drop_streams) {
                    let i = *self.rng.pick(&live);
                    self.cancelled.insert(i);
                    self.push(Step::CancelOp(i));
                } else if self.cfg.drop_streams && !streams.is_empty() {
                    let s = *self.rng.pick(&streams);
                    self.dropped_streams.insert(s);
                    self.push(Step::DropStream(s));
                }
            }
        }
    }

    /// Releases the transports and lets everything in flight arrive.
    pub fn flush(&mut self) {
        self.push(Step::WriterReady);
        self.push(Step::WriterSizes { sizes: vec![] });
        self.push(Step::Deliver { n: usize::MAX });
        self.settle();
    }

    /// Acknowledges every outstanding request (several rounds for QoS 2), answers pings.
    pub fn drain(&mut self) {
        for _ in 0..4 {
            self.flush();
            let acks = self.ack_candidates();
            let pings = self.world.wire.iter().filter(|p| matches!(p.pkt, Packet::Pingreq)).count();
            if acks.is_empty() && pings <= self.pingresp_sent && self.unreleased.is_empty() {
                break;
            }
            for (op, kind) in acks {
                self.send_ack(op, kind);
            }
            while pings > self.pingresp_sent {
                self.pingresp_sent += 1;
                self.broker(BrokerPkt::Pingresp);
            }
            let mut guard = 0;
            while self.cfg.inbound && !self.unreleased.is_empty() && guard < 64 {
                self.inbound_pubrel();
                guard += 1;
            }
        }
        self.flush();
    }

    /// Broker-view number of QoS>0 publishes that occupy a Receive Maximum slot.
    pub fn outstanding_quota(&self) -> usize {
        if self.world.pipes.len() > 1 {
            let live = self.world.live_tasks();
            // resumed session: what the broker still expects an answer for = operations that
            // reached the wire and have not been completed by the script
            return self
                .world
                .ops
                .iter()
                .filter(|(op, info)| matches!(info.spec.publish_qos(), Some(1) | Some(2)) && self.world.op_pid.contains_key(*op))
                .filter(|(op, _)| !matches!(self.stage.get(*op), Some(Stage::Final) | Some(Stage::PubrecFail)))
                // operations abandoned with an expired session have returned (ContextExited)
                .filter(|(op, _)| live.contains(&TaskRef::Op(**op)))
                .count();
        }
        let sent = self
            .world
            .wire
            .iter()
            .filter(|p| matches!(&p.pkt, Packet::Publish(x) if x.qos > 0 && !x.dup))
            .count();
        let done = self
            .world
            .inbound
            .iter()
            .filter(|i| match &i.pkt {
                Some(Packet::Puback(_)) | Some(Packet::Pubcomp(_)) => true,
                Some(Packet::Pubrec(a)) => a.reason >= 0x80,
                _ => false,
            })
            .count();
        sent.saturating_sub(done)
    }

    /// Epilogue for quota checks: at quiescence submit `free + 1` QoS 1 publishes one after
    /// the other; exactly `free` must be accepted. Returns the index of the first probe op.
    pub fn quota_probe(&mut self, r: usize) -> usize {
        self.flush();
        let first = self.next_op_id();
        let free = r.saturating_sub(self.outstanding_quota());
        for k in 0..=free {
            let op = self.next_op_id();
            let qos = if k % 3 == 2 { 2 } else { 1 };
            self.push(Step::Op {
                id: op,
                handle: 0,
                spec: OpSpec::Publish(PublishSpec {
                    qos: Some(qos),
                    topic: Some(format!("t/{op}")),
                    payload: Some(b"probe".to_vec()),
                    ..Default::default()
                }),
            });
            self.settle();
        }
        first
    }

    pub fn finish(mut self) -> (Scenario, World) {
        self.world.finish();
        (Scenario { config: self.config.clone(), steps: self.steps }, self.world)
    }
}

/// Executes a recorded scenario (no PRNG involved).
pub fn replay(sc: &Scenario) -> World {
    let mut w = World::new(sc.config.clone());
    for s in &sc.steps {
        w.exec(s);
    }
    w.finish();
    w
}
