//! Harness-side plain descriptions of client requests (what the "caller" supplies), the
//! translation into poster's public option builders, the packet the standard says must
//! result (for C01), and digests of everything the public accessors expose (for C02 etc.).

use crate::refcodec::{self as rc, pid, Packet, PropVal, Props};
use poster::{
    error::MqttError, prelude::Either, reason::*, AuthOpts, AuthRsp, ConnectOpts, ConnectRsp,
    DisconnectOpts, PublishData, PublishOpts, QoS, RetainHandling, SubscribeOpts, SubscribeRsp,
    SubscriptionOpts, UnsubscribeOpts, UnsubscribeRsp, UserProperties,
};
use serde::{Deserialize, Serialize};
use std::time::Duration;

pub type Pairs = Vec<(String, String)>;

#[derive(Clone, Debug, Default, PartialEq, Eq, Hash, Serialize, Deserialize)]
pub struct WillSpec {
    pub topic: String,
    pub payload: Vec<u8>,
    pub qos: Option<u8>,
    pub retain: Option<bool>,
    pub delay: Option<u32>,
    pub payload_format: Option<bool>,
    pub message_expiry: Option<u32>,
    pub content_type: Option<String>,
    pub response_topic: Option<String>,
    pub correlation_data: Option<Vec<u8>>,
    pub user: Pairs,
}

#[derive(Clone, Debug, Default, PartialEq, Eq, Hash, Serialize, Deserialize)]
pub struct ConnectSpec {
    pub client_id: Option<String>,
    pub keep_alive: Option<u16>,
    pub session_expiry: Option<u32>,
    pub receive_maximum: Option<u16>,
    pub maximum_packet_size: Option<u32>,
    pub topic_alias_maximum: Option<u16>,
    pub request_response_information: Option<bool>,
    pub request_problem_information: Option<bool>,
    pub auth_method: Option<String>,
    pub auth_data: Option<Vec<u8>>,
    pub user: Pairs,
    pub clean_start: Option<bool>,
    pub will: Option<WillSpec>,
    pub username: Option<String>,
    pub password: Option<Vec<u8>>,
}

#[derive(Clone, Debug, Default, PartialEq, Eq, Hash, Serialize, Deserialize)]
pub struct AuthSpec {
    pub reason: Option<u8>,
    pub method: Option<String>,
    pub data: Option<Vec<u8>>,
    pub user: Pairs,
}

#[derive(Clone, Debug, Default, PartialEq, Eq, Hash, Serialize, Deserialize)]
pub struct PublishSpec {
    pub qos: Option<u8>,
    pub retain: Option<bool>,
    pub topic: Option<String>,
    pub payload: Option<Vec<u8>>,
    pub payload_format: Option<bool>,
    pub topic_alias: Option<u16>,
    pub message_expiry: Option<u32>,
    pub correlation_data: Option<Vec<u8>>,
    pub response_topic: Option<String>,
    pub content_type: Option<String>,
    pub user: Pairs,
}

#[derive(Clone, Copy, Debug, Default, PartialEq, Eq, Hash, Serialize, Deserialize)]
pub struct SubOptSpec {
    pub qos: Option<u8>,
    pub no_local: Option<bool>,
    pub retain_as_published: Option<bool>,
    pub retain_handling: Option<u8>,
}

#[derive(Clone, Debug, Default, PartialEq, Eq, Hash, Serialize, Deserialize)]
pub struct SubscribeSpec {
    pub filters: Vec<(String, SubOptSpec)>,
    pub user: Pairs,
}

#[derive(Clone, Debug, Default, PartialEq, Eq, Hash, Serialize, Deserialize)]
pub struct UnsubscribeSpec {
    pub filters: Vec<String>,
    pub user: Pairs,
}

#[derive(Clone, Debug, Default, PartialEq, Eq, Hash, Serialize, Deserialize)]
pub struct DisconnectSpec {
    pub reason: Option<u8>,
    pub session_expiry: Option<u32>,
    pub reason_string: Option<String>,
    pub user: Pairs,
}

#[derive(Clone, Debug, PartialEq, Eq, Hash, Serialize, Deserialize)]
pub enum OpSpec {
    Publish(PublishSpec),
    Subscribe(SubscribeSpec),
    Unsubscribe(UnsubscribeSpec),
    Ping,
    Disconnect(DisconnectSpec),
}

impl OpSpec {
    pub fn kind_name(&self) -> &'static str {
        match self {
            OpSpec::Publish(p) => match p.qos.unwrap_or(0) {
                0 => "publish0",
                1 => "publish1",
                _ => "publish2",
            },
            OpSpec::Subscribe(_) => "subscribe",
            OpSpec::Unsubscribe(_) => "unsubscribe",
            OpSpec::Ping => "ping",
            OpSpec::Disconnect(_) => "disconnect",
        }
    }
    pub fn publish_qos(&self) -> Option<u8> {
        match self {
            OpSpec::Publish(p) => Some(p.qos.unwrap_or(0)),
            _ => None,
        }
    }
}

fn qos_of(v: u8) -> QoS {
    match v {
        0 => QoS::AtMostOnce,
        1 => QoS::AtLeastOnce,
        _ => QoS::ExactlyOnce,
    }
}

fn rh_of(v: u8) -> RetainHandling {
    match v {
        0 => RetainHandling::SendOnSubscribe,
        1 => RetainHandling::SendIfNoSubscription,
        _ => RetainHandling::NoSendOnSubscribe,
    }
}

impl ConnectSpec {
    pub fn opts(&self) -> ConnectOpts<'_> {
        let mut o = ConnectOpts::new();
        if let Some(v) = &self.client_id {
            o = o.client_identifier(v);
        }
        if let Some(v) = self.keep_alive {
            o = o.keep_alive(Duration::from_secs(v as u64));
        }
        if let Some(v) = self.session_expiry {
            o = o.session_expiry_interval(Duration::from_secs(v as u64));
        }
        if let Some(v) = self.receive_maximum {
            o = o.receive_maximum(v);
        }
        if let Some(v) = self.maximum_packet_size {
            o = o.maximum_packet_size(v);
        }
        if let Some(v) = self.topic_alias_maximum {
            o = o.topic_alias_maximum(v);
        }
        if let Some(v) = self.request_response_information {
            o = o.request_response_information(v);
        }
        if let Some(v) = self.request_problem_information {
            o = o.request_problem_information(v);
        }
        if let Some(v) = &self.auth_method {
            o = o.authentication_method(v);
        }
        if let Some(v) = &self.auth_data {
            o = o.authentication_data(v);
        }
        for (k, v) in &self.user {
            o = o.user_property((k, v));
        }
        if let Some(v) = self.clean_start {
            o = o.clean_start(v);
        }
        if let Some(w) = &self.will {
            o = o.will_topic(&w.topic).will_payload(&w.payload);
            if let Some(v) = w.qos {
                o = o.will_qos(qos_of(v));
            }
            if let Some(v) = w.retain {
                o = o.will_retain(v);
            }
            if let Some(v) = w.delay {
                o = o.will_delay_interval(Duration::from_secs(v as u64));
            }
            if let Some(v) = w.payload_format {
                o = o.will_payload_format_indicator(v);
            }
            if let Some(v) = w.message_expiry {
                o = o.will_message_expiry_interval(Duration::from_secs(v as u64));
            }
            if let Some(v) = &w.content_type {
                o = o.will_content_type(v);
            }
            if let Some(v) = &w.response_topic {
                o = o.will_response_topic(v);
            }
            if let Some(v) = &w.correlation_data {
                o = o.will_correlation_data(v);
            }
            for (k, v) in &w.user {
                o = o.will_user_property((k, v));
            }
        }
        if let Some(v) = &self.username {
            o = o.username(v);
        }
        if let Some(v) = &self.password {
            o = o.password(v);
        }
        o
    }

    /// `None`: the request lacks a mandatory part and must be refused.
    pub fn expected(&self) -> Option<Packet> {
        if self.auth_data.is_some() && self.auth_method.is_none() {
            return None;
        }
        let mut props = Props::new();
        if let Some(v) = self.session_expiry {
            props.push(pid::SESSION_EXPIRY, PropVal::U32(v));
        }
        if let Some(v) = self.receive_maximum {
            props.push(pid::RECEIVE_MAXIMUM, PropVal::U16(v));
        }
        if let Some(v) = self.maximum_packet_size {
            props.push(pid::MAXIMUM_PACKET_SIZE, PropVal::U32(v));
        }
        if let Some(v) = self.topic_alias_maximum {
            props.push(pid::TOPIC_ALIAS_MAXIMUM, PropVal::U16(v));
        }
        if let Some(v) = self.request_response_information {
            props.push(pid::REQUEST_RESPONSE_INFO, PropVal::Byte(v as u8));
        }
        if let Some(v) = self.request_problem_information {
            props.push(pid::REQUEST_PROBLEM_INFO, PropVal::Byte(v as u8));
        }
        if let Some(v) = &self.auth_method {
            props.push(pid::AUTH_METHOD, PropVal::Str(v.clone()));
        }
        if let Some(v) = &self.auth_data {
            props.push(pid::AUTH_DATA, PropVal::Bin(v.clone()));
        }
        for (k, v) in &self.user {
            props.push(pid::USER_PROPERTY, PropVal::Pair(k.clone(), v.clone()));
        }
        let will = self.will.as_ref().map(|w| {
            let mut wp = Props::new();
            if let Some(v) = w.delay {
                wp.push(pid::WILL_DELAY, PropVal::U32(v));
            }
            if let Some(v) = w.payload_format {
                wp.push(pid::PAYLOAD_FORMAT, PropVal::Byte(v as u8));
            }
            if let Some(v) = w.message_expiry {
                wp.push(pid::MESSAGE_EXPIRY, PropVal::U32(v));
            }
            if let Some(v) = &w.content_type {
                wp.push(pid::CONTENT_TYPE, PropVal::Str(v.clone()));
            }
            if let Some(v) = &w.response_topic {
                wp.push(pid::RESPONSE_TOPIC, PropVal::Str(v.clone()));
            }
            if let Some(v) = &w.correlation_data {
                wp.push(pid::CORRELATION_DATA, PropVal::Bin(v.clone()));
            }
            for (k, v) in &w.user {
                wp.push(pid::USER_PROPERTY, PropVal::Pair(k.clone(), v.clone()));
            }
            rc::Will {
                qos: w.qos.unwrap_or(0),
                retain: w.retain.unwrap_or(false),
                props: wp,
                topic: w.topic.clone(),
                payload: w.payload.clone(),
            }
        });
        Some(Packet::Connect(rc::Connect {
            clean_start: self.clean_start.unwrap_or(false),
            keep_alive: self.keep_alive.unwrap_or(0),
            props,
            client_id: self.client_id.clone().unwrap_or_default(),
            will,
            username: self.username.clone(),
            password: self.password.clone(),
        }))
    }
}

impl AuthSpec {
    pub fn opts(&self) -> AuthOpts<'_> {
        let mut o = AuthOpts::new();
        if let Some(r) = self.reason {
            o = o.reason(AuthReason::try_from(r).expect("generator uses defined AUTH reasons"));
        }
        if let Some(v) = &self.method {
            o = o.authentication_method(v);
        }
        if let Some(v) = &self.data {
            o = o.authentication_data(v);
        }
        for (k, v) in &self.user {
            o = o.user_property((k, v));
        }
        o
    }

    pub fn expected(&self) -> Option<Packet> {
        let reason = self.reason.unwrap_or(0);
        let bare = reason == 0 && self.method.is_none() && self.data.is_none() && self.user.is_empty();
        if !bare && (self.method.is_none() || self.data.is_none()) {
            return None;
        }
        let mut props = Props::new();
        if let Some(v) = &self.method {
            props.push(pid::AUTH_METHOD, PropVal::Str(v.clone()));
        }
        if let Some(v) = &self.data {
            props.push(pid::AUTH_DATA, PropVal::Bin(v.clone()));
        }
        for (k, v) in &self.user {
            props.push(pid::USER_PROPERTY, PropVal::Pair(k.clone(), v.clone()));
        }
        Some(Packet::Auth(rc::ReasonProps { reason, props }))
    }
}

impl PublishSpec {
    pub fn opts(&self) -> PublishOpts<'_> {
        let mut o = PublishOpts::new();
        if let Some(v) = self.qos {
            o = o.qos(qos_of(v));
        }
        if let Some(v) = self.retain {
            o = o.retain(v);
        }
        if let Some(v) = &self.topic {
            o = o.topic_name(v);
        }
        if let Some(v) = &self.payload {
            o = o.payload(v);
        }
        if let Some(v) = self.payload_format {
            o = o.payload_format_indicator(v);
        }
        if let Some(v) = self.topic_alias {
            o = o.topic_alias(v);
        }
        if let Some(v) = self.message_expiry {
            o = o.message_expiry_interval(Duration::from_secs(v as u64));
        }
        if let Some(v) = &self.correlation_data {
            o = o.correlation_data(v);
        }
        if let Some(v) = &self.response_topic {
            o = o.response_topic(v);
        }
        if let Some(v) = &self.content_type {
            o = o.content_type(v);
        }
        for (k, v) in &self.user {
            o = o.user_property((k, v));
        }
        o
    }

    /// Expected PUBLISH with packet identifier 1 as a placeholder when QoS > 0.
    pub fn expected(&self) -> Option<Packet> {
        let topic = self.topic.clone()?;
        let qos = self.qos.unwrap_or(0);
        let mut props = Props::new();
        if let Some(v) = self.payload_format {
            props.push(pid::PAYLOAD_FORMAT, PropVal::Byte(v as u8));
        }
        if let Some(v) = self.topic_alias {
            props.push(pid::TOPIC_ALIAS, PropVal::U16(v));
        }
        if let Some(v) = self.message_expiry {
            props.push(pid::MESSAGE_EXPIRY, PropVal::U32(v));
        }
        if let Some(v) = &self.correlation_data {
            props.push(pid::CORRELATION_DATA, PropVal::Bin(v.clone()));
        }
        if let Some(v) = &self.response_topic {
            props.push(pid::RESPONSE_TOPIC, PropVal::Str(v.clone()));
        }
        if let Some(v) = &self.content_type {
            props.push(pid::CONTENT_TYPE, PropVal::Str(v.clone()));
        }
        for (k, v) in &self.user {
            props.push(pid::USER_PROPERTY, PropVal::Pair(k.clone(), v.clone()));
        }
        Some(Packet::Publish(rc::Publish {
            dup: false,
            qos,
            retain: self.retain.unwrap_or(false),
            topic,
            pid: if qos > 0 { Some(1) } else { None },
            props,
            payload: self.payload.clone().unwrap_or_default(),
        }))
    }
}

impl SubOptSpec {
    fn opts(&self) -> SubscriptionOpts {
        let mut o = SubscriptionOpts::new();
        if let Some(v) = self.qos {
            o = o.maximum_qos(qos_of(v));
        }
        if let Some(v) = self.no_local {
            o = o.no_local(v);
        }
        if let Some(v) = self.retain_as_published {
            o = o.retain_as_published(v);
        }
        if let Some(v) = self.retain_handling {
            o = o.retain_handling(rh_of(v));
        }
        o
    }
    fn expected(&self) -> rc::SubOpts {
        rc::SubOpts {
            // 0xff: not supplied by the caller, the library's default is not judged
            qos: self.qos.unwrap_or(0xff),
            no_local: self.no_local.unwrap_or(false),
            retain_as_published: self.retain_as_published.unwrap_or(false),
            retain_handling: self.retain_handling.unwrap_or(0),
        }
    }
}

impl SubscribeSpec {
    pub fn opts(&self) -> SubscribeOpts<'_> {
        let mut o = SubscribeOpts::new();
        for (f, so) in &self.filters {
            o = o.subscription(f, so.opts());
        }
        for (k, v) in &self.user {
            o = o.user_property((k, v));
        }
        o
    }
    /// Expected SUBSCRIBE; packet id 1 and subscription identifier 1 are placeholders.
    pub fn expected(&self) -> Option<Packet> {
        if self.filters.is_empty() {
            return None;
        }
        let mut props = Props::new();
        props.push(pid::SUBSCRIPTION_ID, PropVal::VarInt(1));
        for (k, v) in &self.user {
            props.push(pid::USER_PROPERTY, PropVal::Pair(k.clone(), v.clone()));
        }
        Some(Packet::Subscribe(rc::Subscribe {
            pid: 1,
            props,
            filters: self.filters.iter().map(|(f, o)| (f.clone(), o.expected())).collect(),
        }))
    }
}

impl UnsubscribeSpec {
    pub fn opts(&self) -> UnsubscribeOpts<'_> {
        let mut o = UnsubscribeOpts::new();
        for f in &self.filters {
            o = o.topic_filter(f);
        }
        for (k, v) in &self.user {
            o = o.user_property((k, v));
        }
        o
    }
    pub fn expected(&self) -> Option<Packet> {
        if self.filters.is_empty() {
            return None;
        }
        let mut props = Props::new();
        for (k, v) in &self.user {
            props.push(pid::USER_PROPERTY, PropVal::Pair(k.clone(), v.clone()));
        }
        Some(Packet::Unsubscribe(rc::Unsubscribe { pid: 1, props, filters: self.filters.clone() }))
    }
}

impl DisconnectSpec {
    pub fn opts(&self) -> DisconnectOpts<'_> {
        let mut o = DisconnectOpts::new();
        if let Some(r) = self.reason {
            o = o.reason(DisconnectReason::try_from(r).expect("generator uses defined DISCONNECT reasons"));
        }
        if let Some(v) = self.session_expiry {
            o = o.session_expiry_interval(Duration::from_secs(v as u64));
        }
        if let Some(v) = &self.reason_string {
            o = o.reason_string(v);
        }
        for (k, v) in &self.user {
            o = o.user_property((k, v));
        }
        o
    }
    pub fn expected(&self) -> Option<Packet> {
        let mut props = Props::new();
        if let Some(v) = self.session_expiry {
            props.push(pid::SESSION_EXPIRY, PropVal::U32(v));
        }
        if let Some(v) = &self.reason_string {
            props.push(pid::REASON_STRING, PropVal::Str(v.clone()));
        }
        for (k, v) in &self.user {
            props.push(pid::USER_PROPERTY, PropVal::Pair(k.clone(), v.clone()));
        }
        Some(Packet::Disconnect(rc::ReasonProps { reason: self.reason.unwrap_or(0), props }))
    }
}

impl OpSpec {
    pub fn expected(&self) -> Option<Packet> {
        match self {
            OpSpec::Publish(p) => p.expected(),
            OpSpec::Subscribe(s) => s.expected(),
            OpSpec::Unsubscribe(u) => u.expected(),
            OpSpec::Ping => Some(Packet::Pingreq),
            OpSpec::Disconnect(d) => d.expected(),
        }
    }
}

/// Compares a packet read off the wire with the expected one, ignoring the identifiers the
/// library assigns and the order of properties (user properties keep their relative order).
/// Returns the name of the first differing field.
pub fn same_request(wire: &Packet, want: &Packet) -> Result<(), String> {
    fn props(a: &Props, b: &Props, skip_subid: bool, what: &str) -> Result<(), String> {
        let strip = |p: &Props| {
            let mut q = p.clone();
            if skip_subid {
                q.0.retain(|(i, _)| *i != pid::SUBSCRIPTION_ID);
            }
            q.normalized()
        };
        let (ao, au) = strip(a);
        let (bo, bu) = strip(b);
        if au != bu {
            return Err(format!("{what}user-properties"));
        }
        if ao != bo {
            // name the first differing property
            for (id, v) in &bo {
                if !ao.iter().any(|(i, w)| i == id && w == v) {
                    return Err(format!("{what}property-0x{id:02x}"));
                }
            }
            for (id, _) in &ao {
                if !bo.iter().any(|(i, _)| i == id) {
                    return Err(format!("{what}unexpected-property-0x{id:02x}"));
                }
            }
            return Err(format!("{what}properties"));
        }
        Ok(())
    }
    macro_rules! field {
        ($a:expr, $b:expr, $name:expr) => {
            if $a != $b {
                return Err($name.to_string());
            }
        };
    }
    match (wire, want) {
        (Packet::Connect(a), Packet::Connect(b)) => {
            field!(a.clean_start, b.clean_start, "clean-start");
            field!(a.keep_alive, b.keep_alive, "keep-alive");
            field!(a.client_id, b.client_id, "client-id");
            field!(a.username, b.username, "username");
            field!(a.password, b.password, "password");
            props(&a.props, &b.props, false, "")?;
            match (&a.will, &b.will) {
                (None, None) => {}
                (Some(x), Some(y)) => {
                    field!(x.qos, y.qos, "will-qos");
                    field!(x.retain, y.retain, "will-retain");
                    field!(x.topic, y.topic, "will-topic");
                    field!(x.payload, y.payload, "will-payload");
                    props(&x.props, &y.props, false, "will-")?;
                }
                _ => return Err("will-presence".into()),
            }
            Ok(())
        }
        (Packet::Auth(a), Packet::Auth(b)) | (Packet::Disconnect(a), Packet::Disconnect(b)) => {
            field!(a.reason, b.reason, "reason");
            props(&a.props, &b.props, false, "")
        }
        (Packet::Publish(a), Packet::Publish(b)) => {
            field!(a.dup, b.dup, "dup");
            field!(a.qos, b.qos, "qos");
            field!(a.retain, b.retain, "retain");
            field!(a.topic, b.topic, "topic");
            field!(a.pid.is_some(), b.pid.is_some(), "packet-id-presence");
            field!(a.payload, b.payload, "payload");
            props(&a.props, &b.props, false, "")
        }
        (Packet::Subscribe(a), Packet::Subscribe(b)) => {
            if a.props.varints(pid::SUBSCRIPTION_ID).len() != 1 {
                return Err("subscription-identifier-count".into());
            }
            if a.filters.len() != b.filters.len() {
                return Err("filter-count".into());
            }
            for (i, (x, y)) in a.filters.iter().zip(b.filters.iter()).enumerate() {
                if x.0 != y.0 {
                    return Err(format!("filter[{i}]"));
                }
                if y.1.qos != 0xff && x.1.qos != y.1.qos {
                    return Err("subscription-option-qos".into());
                }
                if x.1.no_local != y.1.no_local {
                    return Err("subscription-option-no-local".into());
                }
                if x.1.retain_as_published != y.1.retain_as_published {
                    return Err("subscription-option-retain-as-published".into());
                }
                if x.1.retain_handling != y.1.retain_handling {
                    return Err("subscription-option-retain-handling".into());
                }
            }
            props(&a.props, &b.props, true, "")
        }
        (Packet::Unsubscribe(a), Packet::Unsubscribe(b)) => {
            field!(a.filters, b.filters, "filters");
            props(&a.props, &b.props, false, "")
        }
        (Packet::Pingreq, Packet::Pingreq) => Ok(()),
        (a, b) => Err(format!("packet-type({}-for-{})", a.kind().name(), b.kind().name())),
    }
}

// ---------------------------------------------------------------------------------------
// Digests of what the public accessors return

fn user_digest(u: &UserProperties, flaws: &mut Vec<String>) -> Pairs {
    let pairs: Pairs = u.iter().map(|(k, v)| (k.to_string(), v.to_string())).collect();
    if u.len() != pairs.len() || u.is_empty() != pairs.is_empty() {
        flaws.push("UserProperties::len/is_empty".into());
    }
    let keys: Vec<String> = u.keys().map(|s| s.to_string()).collect();
    let vals: Vec<String> = u.values().map(|s| s.to_string()).collect();
    if keys != pairs.iter().map(|p| p.0.clone()).collect::<Vec<_>>() {
        flaws.push("UserProperties::keys".into());
    }
    if vals != pairs.iter().map(|p| p.1.clone()).collect::<Vec<_>>() {
        flaws.push("UserProperties::values".into());
    }
    for (k, _) in &pairs {
        if !u.contains_key(k) {
            flaws.push("UserProperties::contains_key".into());
        }
        let got: Vec<String> = u.get(k).map(|s| s.to_string()).collect();
        let want: Vec<String> = pairs.iter().filter(|p| &p.0 == k).map(|p| p.1.clone()).collect();
        if got != want {
            flaws.push("UserProperties::get".into());
        }
    }
    if u.contains_key("\u{1}never-a-key") {
        flaws.push("UserProperties::contains_key(absent)".into());
    }
    pairs
}

#[derive(Clone, Debug, Default, PartialEq, Eq, Hash, Serialize, Deserialize)]
pub struct ConnackDigest {
    pub session_present: bool,
    pub reason: u8,
    pub wildcard_subscription_available: bool,
    pub subscription_identifier_available: bool,
    pub shared_subscription_available: bool,
    pub maximum_qos: u8,
    pub retain_available: bool,
    pub server_keep_alive: Option<u64>,
    pub receive_maximum: u16,
    pub topic_alias_maximum: u16,
    pub session_expiry_interval: Option<u64>,
    pub maximum_packet_size: Option<u32>,
    pub assigned_client_identifier: Option<String>,
    pub reason_string: Option<String>,
    pub response_information: Option<String>,
    pub server_reference: Option<String>,
    pub authentication_method: Option<String>,
    pub authentication_data: Option<Vec<u8>>,
    pub user: Pairs,
    pub flaws: Vec<String>,
}

pub fn digest_connack(r: &ConnectRsp) -> ConnackDigest {
    let mut flaws = Vec::new();
    let user = user_digest(r.user_properties(), &mut flaws);
    ConnackDigest {
        session_present: r.session_present(),
        reason: r.reason() as u8,
        wildcard_subscription_available: r.wildcard_subscription_available(),
        subscription_identifier_available: r.subscription_identifier_available(),
        shared_subscription_available: r.shared_subscription_available(),
        maximum_qos: r.maximum_qos() as u8,
        retain_available: r.retain_available(),
        server_keep_alive: r.server_keep_alive().map(|d| d.as_secs()),
        receive_maximum: r.receive_maximum(),
        topic_alias_maximum: r.topic_alias_maximum(),
        session_expiry_interval: r.session_expiry_interval().map(|d| d.as_secs()),
        maximum_packet_size: r.maximum_packet_size(),
        assigned_client_identifier: r.assigned_client_identifier().map(str::to_string),
        reason_string: r.reason_string().map(str::to_string),
        response_information: r.response_information().map(str::to_string),
        server_reference: r.server_reference().map(str::to_string),
        authentication_method: r.authentication_method().map(str::to_string),
        authentication_data: r.authentication_data().map(|b| b.to_vec()),
        user,
        flaws,
    }
}

#[derive(Clone, Debug, Default, PartialEq, Eq, Hash, Serialize, Deserialize)]
pub struct AuthDigest {
    pub reason: u8,
    pub reason_string: Option<String>,
    pub authentication_method: Option<String>,
    pub authentication_data: Option<Vec<u8>>,
    pub user: Pairs,
    pub flaws: Vec<String>,
}

pub fn digest_auth(r: &AuthRsp) -> AuthDigest {
    let mut flaws = Vec::new();
    let user = user_digest(r.user_properties(), &mut flaws);
    AuthDigest {
        reason: r.reason() as u8,
        reason_string: r.reason_string().map(str::to_string),
        authentication_method: r.authentication_method().map(str::to_string),
        authentication_data: r.authentication_data().map(|b| b.to_vec()),
        user,
        flaws,
    }
}

/// Everything an `MqttError` exposes.
#[derive(Clone, Debug, Default, PartialEq, Eq, Hash, Serialize, Deserialize)]
pub struct ErrDigest {
    pub variant: String,
    pub reason: Option<u8>,
    pub reason_string: Option<String>,
    pub server_reference: Option<String>,
    pub session_expiry_interval: Option<u64>,
    pub user: Pairs,
    pub text: String,
    pub flaws: Vec<String>,
}

pub fn digest_err(e: &MqttError) -> ErrDigest {
    let mut d = ErrDigest { text: String::new(), ..Default::default() };
    match e {
        MqttError::InternalError(x) => {
            d.variant = "InternalError".into();
            d.text = x.to_string();
        }
        MqttError::ConnectError(x) => {
            d.variant = "ConnectError".into();
            d.reason = Some(x.reason() as u8);
            d.reason_string = x.reason_string().map(str::to_string);
            d.server_reference = x.server_reference().map(str::to_string);
            d.user = user_digest(x.user_properties(), &mut d.flaws);
        }
        MqttError::AuthError(x) => {
            d.variant = "AuthError".into();
            d.reason = Some(x.reason() as u8);
            d.reason_string = x.reason_string().map(str::to_string);
            d.user = user_digest(x.user_properties(), &mut d.flaws);
        }
        MqttError::PubackError(x) => {
            d.variant = "PubackError".into();
            d.reason = Some(x.reason() as u8);
            d.reason_string = x.reason_string().map(str::to_string);
            d.user = user_digest(x.user_properties(), &mut d.flaws);
        }
        MqttError::PubrecError(x) => {
            d.variant = "PubrecError".into();
            d.reason = Some(x.reason() as u8);
            d.reason_string = x.reason_string().map(str::to_string);
            d.user = user_digest(x.user_properties(), &mut d.flaws);
        }
        MqttError::PubcompError(x) => {
            d.variant = "PubcompError".into();
            d.reason = Some(x.reason() as u8);
            d.reason_string = x.reason_string().map(str::to_string);
            d.user = user_digest(x.user_properties(), &mut d.flaws);
        }
        MqttError::SocketClosed(_) => d.variant = "SocketClosed".into(),
        MqttError::HandleClosed(_) => d.variant = "HandleClosed".into(),
        MqttError::ContextExited(_) => d.variant = "ContextExited".into(),
        MqttError::Disconnected(x) => {
            d.variant = "Disconnected".into();
            d.reason = Some(x.reason() as u8);
            d.reason_string = x.reason_string().map(str::to_string);
            d.server_reference = x.server_reference().map(str::to_string);
            d.session_expiry_interval = Some(x.session_expiry_interval().as_secs());
            d.user = user_digest(x.user_properties(), &mut d.flaws);
        }
        MqttError::CodecError(x) => {
            d.variant = "CodecError".into();
            d.text = x.to_string();
        }
        MqttError::QuotaExceeded(_) => d.variant = "QuotaExceeded".into(),
        MqttError::MaximumPacketSizeExceeded(_) => d.variant = "MaximumPacketSizeExceeded".into(),
    }
    d
}

#[derive(Clone, Debug, PartialEq, Eq, Hash, Serialize, Deserialize)]
pub enum ConnectOutcome {
    Connack(ConnackDigest),
    Auth(AuthDigest),
    Err(ErrDigest),
}

pub fn digest_connect(r: &Result<Either<ConnectRsp, AuthRsp>, MqttError>) -> ConnectOutcome {
    match r {
        Ok(Either::Left(c)) => ConnectOutcome::Connack(digest_connack(c)),
        Ok(Either::Right(a)) => ConnectOutcome::Auth(digest_auth(a)),
        Err(e) => ConnectOutcome::Err(digest_err(e)),
    }
}

#[derive(Clone, Debug, PartialEq, Eq, Hash, Serialize, Deserialize)]
pub struct AckListDigest {
    pub reasons: Vec<u8>,
    pub reason_string: Option<String>,
    pub user: Pairs,
    pub flaws: Vec<String>,
}

#[derive(Clone, Debug, PartialEq, Eq, Hash, Serialize, Deserialize)]
pub enum OpOutcome {
    Done,
    Subscribed(AckListDigest),
    Unsubscribed(AckListDigest),
    Err(ErrDigest),
}

impl OpOutcome {
    pub fn err_variant(&self) -> Option<&str> {
        match self {
            OpOutcome::Err(e) => Some(e.variant.as_str()),
            _ => None,
        }
    }
    pub fn is_ok(&self) -> bool {
        !matches!(self, OpOutcome::Err(_))
    }
}

pub fn digest_unit(r: &Result<(), MqttError>) -> OpOutcome {
    match r {
        Ok(()) => OpOutcome::Done,
        Err(e) => OpOutcome::Err(digest_err(e)),
    }
}

pub fn digest_subscribe(r: &Result<SubscribeRsp, MqttError>) -> OpOutcome {
    match r {
        Ok(s) => {
            let mut flaws = Vec::new();
            let user = user_digest(s.user_properties(), &mut flaws);
            OpOutcome::Subscribed(AckListDigest {
                reasons: s.payload().iter().map(|r| *r as u8).collect(),
                reason_string: s.reason_string().map(str::to_string),
                user,
                flaws,
            })
        }
        Err(e) => OpOutcome::Err(digest_err(e)),
    }
}

pub fn digest_unsubscribe(r: &Result<UnsubscribeRsp, MqttError>) -> OpOutcome {
    match r {
        Ok(s) => {
            let mut flaws = Vec::new();
            let user = user_digest(s.user_properties(), &mut flaws);
            OpOutcome::Unsubscribed(AckListDigest {
                reasons: s.payload().iter().map(|r| *r as u8).collect(),
                reason_string: s.reason_string().map(str::to_string),
                user,
                flaws,
            })
        }
        Err(e) => OpOutcome::Err(digest_err(e)),
    }
}

#[derive(Clone, Debug, Default, PartialEq, Eq, Hash, Serialize, Deserialize)]
pub struct MessageDigest {
    pub dup: bool,
    pub retain: bool,
    pub qos: u8,
    pub topic: String,
    pub payload_format: Option<bool>,
    pub topic_alias: Option<u16>,
    pub message_expiry: Option<u64>,
    pub correlation_data: Option<Vec<u8>>,
    pub response_topic: Option<String>,
    pub content_type: Option<String>,
    pub payload: Vec<u8>,
    pub user: Pairs,
    pub flaws: Vec<String>,
}

pub fn digest_message(m: &PublishData) -> MessageDigest {
    let mut flaws = Vec::new();
    let user = user_digest(m.user_properties(), &mut flaws);
    MessageDigest {
        dup: m.dup(),
        retain: m.retain(),
        qos: m.qos() as u8,
        topic: m.topic_name().to_string(),
        payload_format: m.payload_format_indicator(),
        topic_alias: m.topic_alias(),
        message_expiry: m.message_expiry_interval().map(|d| d.as_secs()),
        correlation_data: m.correlation_data().map(|b| b.to_vec()),
        response_topic: m.response_topic().map(str::to_string),
        content_type: m.content_type().map(str::to_string),
        payload: m.payload().to_vec(),
        user,
        flaws,
    }
}

/// What a stream must yield for an injected PUBLISH (C02/C07).
pub fn message_expected(p: &rc::Publish) -> MessageDigest {
    MessageDigest {
        dup: p.dup,
        retain: p.retain,
        qos: p.qos,
        topic: p.topic.clone(),
        payload_format: p.props.byte(pid::PAYLOAD_FORMAT).map(|b| b != 0),
        topic_alias: p.props.u16(pid::TOPIC_ALIAS),
        message_expiry: p.props.u32(pid::MESSAGE_EXPIRY).map(|v| v as u64),
        correlation_data: p.props.bin(pid::CORRELATION_DATA).map(|b| b.to_vec()),
        response_topic: p.props.str(pid::RESPONSE_TOPIC).map(str::to_string),
        content_type: p.props.str(pid::CONTENT_TYPE).map(str::to_string),
        payload: p.payload.clone(),
        user: p.props.user(),
        flaws: vec![],
    }
}

/// What `ConnectRsp` must expose for an injected successful CONNACK (defaults per the standard).
pub fn connack_expected(c: &rc::Connack) -> ConnackDigest {
    let p = &c.props;
    ConnackDigest {
        session_present: c.session_present,
        reason: c.reason,
        wildcard_subscription_available: p.byte(pid::WILDCARD_AVAILABLE).map(|b| b != 0).unwrap_or(true),
        subscription_identifier_available: p.byte(pid::SUBSCRIPTION_ID_AVAILABLE).map(|b| b != 0).unwrap_or(true),
        shared_subscription_available: p.byte(pid::SHARED_AVAILABLE).map(|b| b != 0).unwrap_or(true),
        maximum_qos: p.byte(pid::MAXIMUM_QOS).unwrap_or(2),
        retain_available: p.byte(pid::RETAIN_AVAILABLE).map(|b| b != 0).unwrap_or(true),
        server_keep_alive: p.u16(pid::SERVER_KEEP_ALIVE).map(|v| v as u64),
        receive_maximum: p.u16(pid::RECEIVE_MAXIMUM).unwrap_or(65535),
        topic_alias_maximum: p.u16(pid::TOPIC_ALIAS_MAXIMUM).unwrap_or(0),
        session_expiry_interval: p.u32(pid::SESSION_EXPIRY).map(|v| v as u64),
        maximum_packet_size: p.u32(pid::MAXIMUM_PACKET_SIZE),
        assigned_client_identifier: p.str(pid::ASSIGNED_CLIENT_ID).map(str::to_string),
        reason_string: p.str(pid::REASON_STRING).map(str::to_string),
        response_information: p.str(pid::RESPONSE_INFO).map(str::to_string),
        server_reference: p.str(pid::SERVER_REFERENCE).map(str::to_string),
        authentication_method: p.str(pid::AUTH_METHOD).map(str::to_string),
        authentication_data: p.bin(pid::AUTH_DATA).map(|b| b.to_vec()),
        user: p.user(),
        flaws: vec![],
    }
}
