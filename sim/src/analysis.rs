//! Post-run view of a world's history: what the oracles read.

use crate::refcodec::{Kind, Packet};
use crate::scenario::*;
use crate::spec::*;
use crate::world::*;
use std::collections::BTreeMap;

#[derive(Clone, Debug)]
pub struct OpView {
    pub idx: usize,
    pub spec: OpSpec,
    pub handle: usize,
    pub spawned: bool,
    /// Event sequence number of the first poll (= the moment the request is submitted).
    pub first_poll: Option<usize>,
    pub returned: Vec<(usize, OpOutcome)>,
    pub cancelled: Option<usize>,
    pub panicked: Option<String>,
    pub first_poll_ready: bool,
}

impl OpView {
    pub fn outcome(&self) -> Option<&OpOutcome> {
        self.returned.first().map(|r| &r.1)
    }
    pub fn ret_seq(&self) -> Option<usize> {
        self.returned.first().map(|r| r.0)
    }
    pub fn err(&self) -> Option<&str> {
        self.outcome().and_then(|o| o.err_variant())
    }
}

#[derive(Clone, Debug, Default)]
pub struct StreamView {
    pub opened: Option<usize>,
    pub items: Vec<(usize, MessageDigest)>,
    pub ended: Option<usize>,
    pub dropped: Option<usize>,
}

#[derive(Clone, Debug)]
pub struct InView {
    pub p: InboundPkt,
    /// Sequence number of the event that made the last byte available to the reader.
    pub avail_seq: Option<usize>,
}

#[derive(Clone, Debug, Default)]
pub struct ConnView {
    pub connect_started: Option<usize>,
    pub connect_returned: Option<(usize, ConnectOutcome)>,
    pub authorize_returned: Vec<(usize, ConnectOutcome)>,
    pub run_started: Option<usize>,
    pub run_returned: Option<(usize, Result<(), ErrDigest>)>,
    pub read_end_seen: Option<usize>,
    pub write_fault_seen: Option<usize>,
    pub wire_len: usize,
    pub wire_error: Option<(usize, String)>,
    pub partial_tail: usize,
    pub delivered: usize,
    pub consumed: usize,
    pub inbound_len: usize,
    pub write_blocked_at_end: bool,
}

pub struct Analysis {
    pub events: Vec<Ev>,
    pub wire: Vec<WirePkt>,
    pub inbound: Vec<InView>,
    pub ops: BTreeMap<usize, OpView>,
    pub streams: BTreeMap<usize, StreamView>,
    pub conns: Vec<ConnView>,
    pub ctx_gone: Option<usize>,
    pub ctx_dropped: Option<usize>,
    pub panics: Vec<(usize, TaskRef, String)>,
    pub stalls: Vec<(usize, String)>,
    pub sweep_progress: Vec<(usize, TaskRef, String)>,
    pub settle_overrun: bool,
    pub live_at_end: Vec<TaskRef>,
    pub finish_seq: usize,
    pub op_pid: BTreeMap<usize, u16>,
    pub op_subid: BTreeMap<usize, u32>,
    pub skipped: usize,
    pub raw_wire: Vec<Vec<u8>>,
    pub id_violations: Vec<(String, String)>,
    pub id_history: Option<(u32, u32, usize)>,
}

impl Analysis {
    pub fn of(w: &World) -> Analysis {
        let events: Vec<Ev> = w.events().clone();
        let mut ops: BTreeMap<usize, OpView> = w
            .ops
            .iter()
            .map(|(&idx, o)| (idx, OpView {
                idx,
                spec: o.spec.clone(),
                handle: o.handle,
                spawned: w.status(TaskRef::Op(idx)).is_some(),
                first_poll: None,
                returned: vec![],
                cancelled: None,
                panicked: None,
                first_poll_ready: false,
            }))
            .collect();
        let mut streams: BTreeMap<usize, StreamView> = BTreeMap::new();
        let mut conns: Vec<ConnView> = (0..w.pipes.len()).map(|_| ConnView::default()).collect();
        let mut ctx_gone = None;
        let mut ctx_dropped = None;
        let mut panics = Vec::new();
        let mut stalls = Vec::new();
        let mut sweep_progress = Vec::new();
        let mut settle_overrun = false;
        let mut finish_seq = events.len();
        let mut skipped = 0;
        let mut id_violations = Vec::new();
        let mut id_history = None;
        // delivered marks per connection: (upto, seq)
        let mut delivered: Vec<Vec<(usize, usize)>> = vec![Vec::new(); w.pipes.len()];
        let mut op_polls: BTreeMap<usize, usize> = BTreeMap::new();
        for (seq, e) in events.iter().enumerate() {
            match e {
                Ev::StepBegin { idx, .. } if *idx == usize::MAX => finish_seq = seq,
                Ev::Skipped { .. } => skipped += 1,
                Ev::PollBegin { task: TaskRef::Op(i), .. } => {
                    let n = op_polls.entry(*i).or_insert(0);
                    *n += 1;
                    if *n == 1 {
                        if let Some(o) = ops.get_mut(i) { o.first_poll = Some(seq); }
                    }
                }
                Ev::PollEnd { task, res } => {
                    if let PollRes::Panicked(m) = res {
                        panics.push((seq, *task, m.clone()));
                        if let TaskRef::Op(i) = task {
                            if let Some(o) = ops.get_mut(i) { o.panicked = Some(m.clone()); }
                        }
                        if *task == TaskRef::Ctx {
                            ctx_gone.get_or_insert(seq);
                        }
                    }
                    if let (TaskRef::Op(i), PollRes::Ready) = (task, res) {
                        if op_polls.get(i) == Some(&1) {
                            if let Some(o) = ops.get_mut(i) { o.first_poll_ready = true; }
                        }
                    }
                }
                Ev::DropPanicked { task, msg } => panics.push((seq, *task, format!("in drop: {msg}"))),
                Ev::Dropped { task } => match task {
                    TaskRef::Ctx => {
                        ctx_gone.get_or_insert(seq);
                        ctx_dropped.get_or_insert(seq);
                    }
                    TaskRef::Op(i) => { if let Some(o) = ops.get_mut(i) { o.cancelled = Some(seq); } }
                    TaskRef::Consumer(s) => streams.entry(*s).or_default().dropped = Some(seq),
                },
                Ev::CtxEnded => {
                    ctx_gone.get_or_insert(seq);
                }
                Ev::Delivered { conn, upto } => delivered[*conn].push((*upto, seq)),
                Ev::ReadEof { conn } | Ev::ReadErr { conn } => {
                    conns[*conn].read_end_seen.get_or_insert(seq);
                }
                Ev::WriteFault { conn, .. } => {
                    conns[*conn].write_fault_seen.get_or_insert(seq);
                }
                Ev::ConnectStarted { conn } => conns[*conn].connect_started = Some(seq),
                Ev::ConnectReturned { conn, out } => conns[*conn].connect_returned = Some((seq, out.clone())),
                Ev::AuthorizeReturned { conn, out, .. } => conns[*conn].authorize_returned.push((seq, out.clone())),
                Ev::RunStarted { conn } => conns[*conn].run_started = Some(seq),
                Ev::RunReturned { conn, out } => conns[*conn].run_returned = Some((seq, out.clone())),
                Ev::OpReturned { op, out } => { if let Some(o) = ops.get_mut(op) { o.returned.push((seq, out.clone())); } }
                Ev::StreamOpened { sub } => streams.entry(*sub).or_default().opened = Some(seq),
                Ev::StreamItem { sub, msg } => streams.entry(*sub).or_default().items.push((seq, msg.clone())),
                Ev::StreamEnded { sub } => streams.entry(*sub).or_default().ended = Some(seq),
                Ev::Stall { what, .. } => stalls.push((seq, what.clone())),
                Ev::SweepProgress { task, what } => sweep_progress.push((seq, *task, what.clone())),
                Ev::SettleOverrun => settle_overrun = true,
                Ev::IdViolation { class, what } => id_violations.push((class.clone(), what.clone())),
                Ev::IdHistoryDone { ops, wraps, max_outstanding } => id_history = Some((*ops, *wraps, *max_outstanding)),
                _ => {}
            }
        }
        let inbound = w
            .inbound
            .iter()
            .map(|p| {
                let avail_seq = delivered[p.conn].iter().find(|(upto, _)| *upto >= p.end).map(|(_, s)| *s);
                InView { p: p.clone(), avail_seq }
            })
            .collect();
        for (c, pipe) in w.pipes.iter().enumerate() {
            let p = pipe.borrow();
            conns[c].wire_len = p.wire.len();
            conns[c].wire_error = w.wire_error[c].clone();
            conns[c].delivered = p.delivered;
            conns[c].consumed = p.consumed;
            conns[c].inbound_len = p.inbound_len;
            conns[c].write_blocked_at_end = p.write_blocked();
            let parsed_end = w.wire.iter().filter(|x| x.conn == c).map(|x| x.off + x.len).max().unwrap_or(0);
            conns[c].partial_tail = p.wire.len() - parsed_end;
        }
        Analysis {
            events,
            wire: w.wire.clone(),
            inbound,
            ops,
            streams,
            conns,
            ctx_gone,
            ctx_dropped,
            panics,
            stalls,
            sweep_progress,
            settle_overrun,
            live_at_end: w.live_tasks(),
            finish_seq,
            op_pid: w.op_pid.clone(),
            op_subid: w.op_subid.clone(),
            skipped,
            raw_wire: w.pipes.iter().map(|p| p.borrow().wire.clone()).collect(),
            id_violations,
            id_history,
        }
    }

    /// Wire packets of connection `conn` that the client initiates (not acknowledgements).
    pub fn requests(&self, conn: usize) -> Vec<&WirePkt> {
        self.wire
            .iter()
            .filter(|p| p.conn == conn && !matches!(p.pkt.kind(), Kind::Puback | Kind::Pubrec | Kind::Pubcomp))
            .collect()
    }
    pub fn acks(&self, conn: usize) -> Vec<&WirePkt> {
        self.wire
            .iter()
            .filter(|p| p.conn == conn && matches!(p.pkt.kind(), Kind::Puback | Kind::Pubrec | Kind::Pubcomp))
            .collect()
    }
    /// The wire packet carrying operation `op`'s request (by marker).
    pub fn request_of(&self, op: usize) -> Vec<&WirePkt> {
        self.wire.iter().filter(|p| marker_of(&p.pkt) == Some(op)).collect()
    }
    /// Acknowledgements the conformant broker addressed to `op`, in injection order.
    pub fn acks_for(&self, op: usize) -> Vec<&InView> {
        self.inbound.iter().filter(|i| matches!(i.p.ack_for, Some((o, _)) if o == op)).collect()
    }
    /// Everything injected was made available to the reader (it may not have been consumed if
    /// the serving call returned) and the writer was not left blocked.
    pub fn fully_delivered(&self) -> bool {
        self.conns.iter().all(|c| c.delivered == c.inbound_len && !c.write_blocked_at_end)
    }
    pub fn run_returned(&self) -> bool {
        self.conns.iter().any(|c| c.run_returned.is_some())
    }
    pub fn last_conn(&self) -> Option<&ConnView> {
        self.conns.last()
    }
    pub fn pings_on_wire(&self) -> usize {
        self.wire.iter().filter(|p| matches!(p.pkt, Packet::Pingreq)).count()
    }
    /// True when nothing injected a fault and every injected byte was consumed.
    pub fn fully_consumed(&self) -> bool {
        self.conns.iter().all(|c| c.consumed == c.inbound_len && !c.write_blocked_at_end)
    }
}
