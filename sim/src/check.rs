//! Batch runner: seeded search over scenarios for one property, in-process re-execution of
//! every scenario (determinism re-check), minimisation, replay files, evidence.

use crate::analysis::Analysis;
use crate::gen::replay;
use crate::oracle::Violation;
use crate::props;
use crate::rng::{fnv_of, Rng};
use crate::scenario::*;
use crate::world::{Ev, PollRes, World};
use serde_json::json;
use std::collections::{BTreeMap, BTreeSet, HashSet};
use std::sync::Mutex;
use std::time::Instant;

#[derive(Clone, Copy, Debug, PartialEq, Eq)]
pub enum Tier {
    Quick,
    Thorough,
}

impl Tier {
    pub fn name(self) -> &'static str {
        match self {
            Tier::Quick => "quick",
            Tier::Thorough => "thorough",
        }
    }
}

/// One generated case: the recorded scenario plus (for differential oracles) a second one.
pub struct Case {
    pub scenario: Scenario,
    pub aux: Option<Scenario>,
    pub profile: &'static str,
    /// history hash of the generating execution (compared with the judging re-execution)
    pub gen_hash: Option<u64>,
    pub systematic: bool,
}

#[derive(Default)]
pub struct Judged {
    pub violations: Vec<Violation>,
    /// Key of the non-trivial aspect this case exercised (None = trivial for the property).
    pub nontrivial: Vec<u64>,
    pub hist_hash: u64,
    pub interleaving: u64,
    pub states: Vec<u64>,
    pub steps: usize,
    pub polls: u64,
    pub sim_secs: u64,
    pub faults: BTreeMap<String, u64>,
    pub probes: BTreeMap<String, u64>,
    pub skipped: usize,
}

impl Judged {
    /// Fills the generic measurements from a finished world.
    pub fn measure(&mut self, w: &World, a: &Analysis) {
        self.hist_hash = w.history_hash();
        // interleaving = sequence of (step kind / polled task kind / poll outcome)
        let mut seq: Vec<u8> = Vec::with_capacity(a.events.len());
        for e in &a.events {
            match e {
                Ev::StepBegin { kind, .. } => seq.push(kind.as_bytes()[0] ^ kind.len() as u8),
                Ev::PollBegin { task, woken } => seq.push(match task {
                    TaskRef::Ctx => 200,
                    TaskRef::Op(i) => 201 + (*i as u8 % 16),
                    TaskRef::Consumer(i) => 220 + (*i as u8 % 16),
                } ^ (*woken as u8)),
                Ev::PollEnd { res, .. } => seq.push(match res {
                    PollRes::Pending => 250,
                    PollRes::Ready => 251,
                    PollRes::Panicked(_) => 252,
                }),
                Ev::Read { n, .. } => seq.push(240 ^ (*n as u8)),
                Ev::Wrote { n, .. } => seq.push(241 ^ (*n as u8)),
                _ => {}
            }
        }
        self.interleaving = fnv_of(&seq);
        self.states = w.snapshots().iter().map(fnv_of).collect();
        self.steps += w.steps_done;
        self.polls += w.polls;
        self.sim_secs += w.clock_secs;
        for (k, n) in &w.fault_fired {
            *self.faults.entry(k.to_string()).or_insert(0) += n;
        }
        for (k, n) in poster::verif::take_probes() {
            *self.probes.entry(k.to_string()).or_insert(0) += n;
        }
        self.skipped += a.skipped;
    }
}

pub struct Totals {
    pub runs: u64,
    pub systematic_cases: u64,
    pub steps: u64,
    pub polls: u64,
    pub sim_secs: u64,
    pub faults: BTreeMap<String, u64>,
    pub probes: BTreeMap<String, u64>,
    pub nontrivial: HashSet<u64>,
    pub interleavings: HashSet<u64>,
    pub states: HashSet<u64>,
    pub determinism_rechecks: u64,
    pub determinism_mismatches: u64,
    pub violations: Vec<(u64, Case, Vec<Violation>)>,
    pub violation_count: u64,
    pub samples: Vec<serde_json::Value>,
    pub skipped_steps: u64,
    pub profiles: BTreeMap<String, u64>,
}

impl Totals {
    fn new() -> Totals {
        Totals {
            runs: 0,
            systematic_cases: 0,
            steps: 0,
            polls: 0,
            sim_secs: 0,
            faults: BTreeMap::new(),
            probes: BTreeMap::new(),
            nontrivial: HashSet::new(),
            interleavings: HashSet::new(),
            states: HashSet::new(),
            determinism_rechecks: 0,
            determinism_mismatches: 0,
            violations: Vec::new(),
            violation_count: 0,
            samples: Vec::new(),
            skipped_steps: 0,
            profiles: BTreeMap::new(),
        }
    }
}

pub struct Options {
    pub property: String,
    pub tier: Tier,
    pub seed: u64,
    pub runs: Option<u64>,
    pub threads: usize,
    pub out_dir: String,
    pub profile_tag: String,
}

fn dirs(opt: &Options) -> (String, String) {
    (format!("{}/replays", opt.out_dir), format!("{}/evidence", opt.out_dir))
}

/// Re-executes a scenario and applies the property's oracle.
pub fn judge(prop: &str, case_sc: &Scenario, aux: Option<&Scenario>) -> Judged {
    props::judge(prop, case_sc, aux)
}

fn same_class(j: &Judged, class: &str) -> bool {
    j.violations.iter().any(|x| x.class == class)
}

/// ddmin over the step list, then argument simplification; keeps a candidate only if the
/// same violation class is still produced.
pub fn minimise(prop: &str, sc: &Scenario, aux: Option<&Scenario>, class: &str) -> (Scenario, Option<Scenario>) {
    let mut best = sc.clone();
    let mut best_aux = aux.cloned();
    if let Some(x) = aux {
        if x.steps.len() != sc.steps.len() {
            // differential case with an explicitly constructed reference: already structured
            // and small, and removing steps on one side only would change what is compared
            return (best, best_aux);
        }
    }
    let mut evals = 0usize;
    let mut budget = 1500usize;
    let started = Instant::now();
    // long macro-step histories cost seconds per evaluation: bound the effort
    if sc.steps.iter().any(|s| matches!(s, Step::IdHistory { .. })) {
        budget = 12;
    }
    let differential = aux.is_some();
    // for differential oracles both scenarios have the same step skeleton: remove in lock-step
    let try_case = |s: &Scenario, x: Option<&Scenario>, evals: &mut usize| -> bool {
        *evals += 1;
        if started.elapsed().as_secs() > 20 {
            *evals = usize::MAX / 2; // wall-clock bound reached: stop minimising
            return false;
        }
        same_class(&judge(prop, s, x), class)
    };
    let mut n = 2usize;
    while best.steps.len() >= 2 && evals < budget {
        let len = best.steps.len();
        let chunk = (len + n - 1) / n;
        let mut reduced = false;
        let mut start = 0;
        while start < len {
            let end = (start + chunk).min(len);
            let mut cand = best.clone();
            cand.steps.drain(start..end);
            let cand_aux = if differential {
                best_aux.as_ref().map(|a| {
                    let mut c = a.clone();
                    if a.steps.len() == len {
                        c.steps.drain(start..end);
                    }
                    c
                })
            } else {
                None
            };
            if !cand.steps.is_empty() && try_case(&cand, cand_aux.as_ref(), &mut evals) {
                best = cand;
                best_aux = cand_aux.or(best_aux);
                n = (n - 1).max(2);
                reduced = true;
                break;
            }
            start = end;
            if evals >= budget {
                break;
            }
        }
        if !reduced {
            if n >= len {
                break;
            }
            n = (n * 2).min(len);
        }
    }
    // argument simplification
    let mut simplify = |f: &dyn Fn(&mut Scenario) -> bool| {
        let mut cand = best.clone();
        if f(&mut cand) && evals < budget && try_case(&cand, best_aux.as_ref(), &mut evals) {
            best = cand;
        }
    };
    simplify(&|s| {
        let ch = s.config.select != SelectPolicy::PacketFirst;
        s.config.select = SelectPolicy::PacketFirst;
        ch
    });
    simplify(&|s| {
        let ch = s.config.scribble;
        s.config.scribble = false;
        ch
    });
    simplify(&|s| {
        let mut ch = false;
        for st in s.steps.iter_mut() {
            if let Step::Broker { chunks, hold, .. } = st {
                if *chunks != Chunks::Whole || *hold {
                    *chunks = Chunks::Whole;
                    *hold = false;
                    ch = true;
                }
            }
        }
        ch
    });
    let n_steps = sc.steps.len();
    for i in 0..n_steps {
        simplify(&|s| match s.steps.get_mut(i) {
            Some(Step::Broker { chunks, hold, .. }) if *chunks != Chunks::Whole || *hold => {
                *chunks = Chunks::Whole;
                *hold = false;
                true
            }
            Some(Step::Settle { seed }) if *seed != 0 => {
                *seed = 0;
                true
            }
            _ => false,
        });
    }
    (best, best_aux)
}

#[derive(serde::Deserialize, Clone, Debug)]
pub struct KnownFinding {
    pub property: String,
    pub class: String,
    #[serde(default)]
    pub message_contains: Option<String>,
    pub status: String,
    #[serde(default)]
    pub commit: Option<String>,
    pub what: String,
}

#[derive(serde::Deserialize, Clone, Debug, Default)]
pub struct KnownFindings {
    pub findings: Vec<KnownFinding>,
}

pub fn load_known(out_dir: &str) -> KnownFindings {
    let path = format!("{out_dir}/known_findings.json");
    match std::fs::read_to_string(&path) {
        Ok(s) => serde_json::from_str(&s).unwrap_or_else(|e| {
            eprintln!("harness error: {path}: {e}");
            std::process::exit(2);
        }),
        Err(_) => KnownFindings::default(),
    }
}

pub fn known_match<'a>(k: &'a KnownFindings, viol: &Violation) -> Option<&'a KnownFinding> {
    k.findings.iter().find(|f| {
        f.status == "open"
            && f.property == viol.property
            && f.class == viol.class
            && f.message_contains.as_ref().map(|m| viol.message.contains(m.as_str())).unwrap_or(true)
    })
}

/// Seconds a single case may take before the watchdog calls it a hang (a busy loop inside one
/// poll). The slowest legitimate cases take a few seconds under load.
fn watchdog_limit() -> u64 {
    std::env::var("VERIF_WATCHDOG_SECS").ok().and_then(|s| s.parse().ok()).unwrap_or(120)
}

fn hang_class(prop: &str) -> String {
    format!("{prop}/hang/poll-never-returned")
}

/// Called from the monitor thread: the case with this index has been executing for `secs`
/// seconds. Writes a regenerating replay file and a minimal evidence file, prints the VIOLATION.
fn report_hang(opt: &Options, idx: u64, systematic: bool, secs: u64) {
    let prop = opt.property.as_str();
    let (replay_dir, evidence_dir) = dirs(opt);
    std::fs::create_dir_all(&replay_dir).ok();
    std::fs::create_dir_all(&evidence_dir).ok();
    let class = hang_class(prop);
    let fname = format!("{replay_dir}/{prop}-{}-{}{}-hang.json", opt.seed, if systematic { "sys" } else { "" }, idx);
    let rf = ReplayFile {
        property: prop.to_string(),
        class: class.clone(),
        message: format!("a poll of a library future has not returned for {secs} s: busy loop (no step list can be recorded for a run that never finishes; the replay regenerates it from seed and index)"),
        seed: opt.seed,
        run: idx,
        profile: format!("(regenerated)/{}", opt.profile_tag),
        aux: None,
        scenario: Scenario { config: crate::scenario::Config::default(), steps: vec![] },
        original_steps: 0,
        regenerate: Some(crate::scenario::Regenerate { tier: opt.tier.name().to_string(), index: idx, systematic }),
    };
    std::fs::write(&fname, serde_json::to_string_pretty(&rf).unwrap()).expect("write replay file");
    println!("VIOLATION property={prop} replay={fname}");
    println!("  class:   {class}");
    println!("  message: {}", rf.message);
    let evidence = json!({
        "property_id": prop,
        "level": props::level(prop),
        "tier": opt.tier.name(),
        "seed": opt.seed,
        "wall_s": secs as f64,
        "violations": 1,
        "coverage": {
            "rule": props::rule(prop),
            "evaluations": 0,
            "exhaustive": false,
            "note": "the batch was ended by the watchdog: one case never returned from a poll",
            "violation_classes": [class],
            "components": props::components(),
        },
        "assumptions": props::assumptions(prop),
    });
    std::fs::write(format!("{evidence_dir}/{prop}.json"), serde_json::to_string_pretty(&evidence).unwrap()).ok();
}

pub fn run_check(opt: &Options) -> i32 {
    let t0 = Instant::now();
    let prop = opt.property.as_str();
    let plan = props::plan(prop, opt.tier);
    let random_runs = opt.runs.unwrap_or(plan.random_runs);
    println!("check {prop} tier={} seed={} random_runs={} threads={} arithmetic={}", opt.tier.name(), opt.seed, random_runs, opt.threads, opt.profile_tag);
    let totals = Mutex::new(Totals::new());
    let threads = opt.threads.max(1);
    let max_keep = 3usize;
    let systematic: Vec<Case> = props::systematic(prop, opt.tier, opt.seed);
    let sys_len = systematic.len() as u64;
    let systematic = Mutex::new(systematic.into_iter().enumerate().collect::<Vec<_>>());
    // watchdog: what each worker is executing and since when. A poll that never returns (a busy
    // loop inside the library) cannot be interrupted from within its thread; the monitor reports
    // it as a violation with a regenerating replay file and ends the process.
    let slots: Vec<Mutex<Option<(Instant, u64, bool)>>> = (0..threads).map(|_| Mutex::new(None)).collect();
    let finished = std::sync::atomic::AtomicBool::new(false);
    let limit = watchdog_limit();
    std::thread::scope(|scope| {
        {
            let slots = &slots;
            let finished = &finished;
            scope.spawn(move || {
                while !finished.load(std::sync::atomic::Ordering::Relaxed) {
                    std::thread::sleep(std::time::Duration::from_millis(500));
                    for s in slots.iter() {
                        let cur = *s.lock().unwrap();
                        if let Some((since, idx, sys)) = cur {
                            if since.elapsed().as_secs() >= limit {
                                report_hang(opt, idx, sys, since.elapsed().as_secs());
                                std::process::exit(1);
                            }
                        }
                    }
                }
            });
        }
        let mut workers = Vec::new();
        for t in 0..threads {
            let totals = &totals;
            let systematic = &systematic;
            let slot = &slots[t];
            workers.push(scope.spawn(move || {
                let mut local = Totals::new();
                let absorb = |local: &mut Totals, idx: u64, case: Case, j: Judged| {
                    if case.systematic {
                        local.systematic_cases += 1;
                    } else {
                        local.runs += 1;
                    }
                    *local.profiles.entry(case.profile.to_string()).or_insert(0) += 1;
                    local.steps += j.steps as u64;
                    local.polls += j.polls;
                    local.sim_secs += j.sim_secs;
                    local.skipped_steps += j.skipped as u64;
                    for (k, n) in &j.faults {
                        *local.faults.entry(k.clone()).or_insert(0) += n;
                    }
                    for (k, n) in &j.probes {
                        *local.probes.entry(k.clone()).or_insert(0) += n;
                    }
                    for k in &j.nontrivial {
                        local.nontrivial.insert(*k);
                    }
                    local.interleavings.insert(j.interleaving);
                    for s in &j.states {
                        local.states.insert(*s);
                    }
                    if let Some(h) = case.gen_hash {
                        local.determinism_rechecks += 1;
                        if h != j.hist_hash {
                            local.determinism_mismatches += 1;
                        }
                    }
                    if local.samples.len() < 2 && !j.nontrivial.is_empty() && idx % 7 == 0 {
                        local.samples.push(json!({"run": idx, "profile": case.profile, "scenario": case.scenario}));
                    }
                    if !j.violations.is_empty() {
                        local.violation_count += 1;
                        let classes: BTreeSet<&str> = local.violations.iter().flat_map(|v| v.2.iter().map(|x| x.class.as_str())).collect();
                        let new_class = j.violations.iter().any(|x| !classes.contains(x.class.as_str()));
                        if local.violations.len() < max_keep || (new_class && local.violations.len() < 40) {
                            local.violations.push((idx, case, j.violations));
                        }
                    }
                };
                // systematic cases first (shared queue), then the seeded random runs
                loop {
                    let next = systematic.lock().unwrap().pop();
                    let Some((i, case)) = next else { break };
                    let started = Instant::now();
                    *slot.lock().unwrap() = Some((started, i as u64, true));
                    let j = judge(prop, &case.scenario, case.aux.as_ref());
                    *slot.lock().unwrap() = None;
                    if started.elapsed().as_secs() >= 5 {
                        eprintln!("note: systematic case {i} ({}) took {:.1}s, {} steps, {} polls", case.profile, started.elapsed().as_secs_f64(), j.steps, j.polls);
                    }
                    absorb(&mut local, 1_000_000_000 + i as u64, case, j);
                }
                let mut idx = t as u64;
                while idx < random_runs {
                    let mut rng = Rng::derive(opt.seed, idx, 0);
                    let started = Instant::now();
                    *slot.lock().unwrap() = Some((started, idx, false));
                    let case = props::generate(prop, opt.tier, &mut rng, idx);
                    let j = judge(prop, &case.scenario, case.aux.as_ref());
                    *slot.lock().unwrap() = None;
                    if started.elapsed().as_secs() >= 5 {
                        eprintln!("note: run {idx} ({}) took {:.1}s, {} steps, {} polls", case.profile, started.elapsed().as_secs_f64(), j.steps, j.polls);
                    }
                    absorb(&mut local, idx, case, j);
                    idx += threads as u64;
                }
                let mut g = totals.lock().unwrap();
                g.runs += local.runs;
                g.systematic_cases += local.systematic_cases;
                g.steps += local.steps;
                g.polls += local.polls;
                g.sim_secs += local.sim_secs;
                g.skipped_steps += local.skipped_steps;
                g.determinism_rechecks += local.determinism_rechecks;
                g.determinism_mismatches += local.determinism_mismatches;
                g.violation_count += local.violation_count;
                for (k, n) in local.faults {
                    *g.faults.entry(k).or_insert(0) += n;
                }
                for (k, n) in local.probes {
                    *g.probes.entry(k).or_insert(0) += n;
                }
                for (k, n) in local.profiles {
                    *g.profiles.entry(k).or_insert(0) += n;
                }
                g.nontrivial.extend(local.nontrivial);
                g.interleavings.extend(local.interleavings);
                g.states.extend(local.states);
                g.violations.extend(local.violations);
                g.samples.extend(local.samples);
            }));
        }
        for w in workers {
            let _ = w.join();
        }
        finished.store(true, std::sync::atomic::Ordering::Relaxed);
    });
    let mut totals = totals.into_inner().unwrap();
    let _ = sys_len;
    if totals.determinism_mismatches > 0 {
        eprintln!("harness error: {} of {} re-executions produced a different history", totals.determinism_mismatches, totals.determinism_rechecks);
        return 2;
    }
    // Report violations: one per distinct class, smallest run index first, minimised.
    totals.violations.sort_by_key(|v| v.0);
    let known = load_known(&opt.out_dir);
    let (replay_dir, evidence_dir) = dirs(opt);
    std::fs::create_dir_all(&replay_dir).ok();
    std::fs::create_dir_all(&evidence_dir).ok();
    let mut seen_classes: BTreeSet<String> = BTreeSet::new();
    let mut exit = 0;
    let mut reported = Vec::new();
    let mut known_hit = Vec::new();
    for (idx, case, viols) in &totals.violations {
        for viol in viols {
            if !seen_classes.insert(viol.class.clone()) {
                continue;
            }
            let (min_sc, min_aux) = minimise(prop, &case.scenario, case.aux.as_ref(), &viol.class);
            // the minimised scenario must reproduce the class in a fresh execution
            let again = judge(prop, &min_sc, min_aux.as_ref());
            let Some(final_v) = again.violations.iter().find(|x| x.class == viol.class) else {
                eprintln!("harness error: minimised scenario no longer reproduces {}", viol.class);
                return 2;
            };
            let fname = format!(
                "{replay_dir}/{prop}-{}-{}-{:08x}.json",
                opt.seed,
                idx,
                fnv_of(&viol.class) as u32
            );
            let rf = ReplayFile {
                property: prop.to_string(),
                class: viol.class.clone(),
                message: final_v.message.clone(),
                seed: opt.seed,
                run: *idx,
                profile: format!("{}/{}", case.profile, opt.profile_tag),
                aux: min_aux,
                scenario: min_sc,
                original_steps: case.scenario.steps.len(),
                regenerate: None,
            };
            std::fs::write(&fname, serde_json::to_string_pretty(&rf).unwrap()).expect("write replay file");
            if std::env::var("VERIF_KEEP_ORIGINAL").is_ok() {
                // triage aid: the scenario as generated, before minimisation
                let orig = ReplayFile { aux: case.aux.clone(), scenario: case.scenario.clone(), message: viol.message.clone(), ..rf.clone() };
                std::fs::write(format!("{fname}.orig"), serde_json::to_string_pretty(&orig).unwrap()).ok();
            }
            if let Some(k) = known_match(&known, final_v) {
                println!("KNOWN-FINDING: property={prop} {} [{}] replay={fname}", k.what, viol.class);
                known_hit.push(viol.class.clone());
            } else {
                println!("VIOLATION property={prop} replay={fname}");
                println!("  class:   {}", viol.class);
                println!("  message: {}", final_v.message);
                println!("  steps:   {} (from {})", rf.scenario.steps.len(), rf.original_steps);
                reported.push(viol.class.clone());
                exit = 1;
            }
        }
    }
    // Regression corpus: replay files that demonstrated defects which have since been repaired
    // (or other hand-kept scenarios). Any that reproduces its class again is a violation.
    let mut regressions = 0u64;
    if let Ok(rd) = std::fs::read_dir(format!("{}/findings", opt.out_dir)) {
        let mut files: Vec<_> = rd.filter_map(|e| e.ok()).map(|e| e.path()).filter(|p| p.extension().map(|x| x == "json").unwrap_or(false)).collect();
        files.sort();
        for f in files {
            let Ok(text) = std::fs::read_to_string(&f) else { continue };
            let rf: ReplayFile = match serde_json::from_str(&text) {
                Ok(r) => r,
                Err(e) => {
                    eprintln!("harness error: {}: {e}", f.display());
                    return 2;
                }
            };
            if rf.property != prop {
                continue;
            }
            regressions += 1;
            let j = judge(prop, &rf.scenario, rf.aux.as_ref());
            if let Some(x) = j.violations.iter().find(|x| x.class == rf.class) {
                if let Some(k) = known_match(&known, x) {
                    println!("KNOWN-FINDING: property={prop} {} [{}] replay={}", k.what, x.class, f.display());
                    known_hit.push(x.class.clone());
                } else {
                    println!("VIOLATION property={prop} replay={}", f.display());
                    println!("  class:   {}", x.class);
                    println!("  message: {}", x.message);
                    reported.push(x.class.clone());
                    exit = 1;
                }
            }
        }
    }
    let wall = t0.elapsed().as_secs_f64();
    let evals = totals.runs + totals.systematic_cases;
    let level = props::level(prop);
    // deterministic choice (lowest run indices) and bounded size: a scenario with 70 kB payloads
    // serialises to megabytes, which does not belong into an evidence file
    let mut samples = totals.samples.clone();
    samples.sort_by_key(|s| s.get("run").and_then(|r| r.as_u64()).unwrap_or(u64::MAX));
    samples.truncate(3);
    for s in samples.iter_mut() {
        let size = serde_json::to_string(s).map(|t| t.len()).unwrap_or(0);
        if size > 40_000 {
            let steps = s.get("scenario").and_then(|x| x.get("steps")).and_then(|x| x.as_array()).map(|a| a.len()).unwrap_or(0);
            *s = json!({
                "run": s.get("run").cloned().unwrap_or(serde_json::Value::Null),
                "profile": s.get("profile").cloned().unwrap_or(serde_json::Value::Null),
                "steps": steps,
                "note": format!("scenario omitted ({size} bytes of JSON); regenerate it with `posim gen <ID> --seed <seed> --run <run>`"),
            });
        }
    }
    if samples.is_empty() {
        samples.push(json!({"note": "no non-trivial sample captured"}));
    }
    let evidence = json!({
        "property_id": prop,
        "tier": opt.tier.name(),
        "seed": opt.seed,
        "level": level,
        "wall_s": wall,
        "violations": reported.len(),
        "coverage": {
            "evaluations": evals,
            "distinct_nontrivial": totals.nontrivial.len(),
            "rule": props::rule(prop),
            "samples": samples,
            "random_runs": totals.runs,
            "systematic_cases": totals.systematic_cases,
            "runs_per_hour": if wall > 0.0 { (evals as f64 / wall * 3600.0) as u64 } else { 0 },
            "simulator_steps": totals.steps,
            "task_polls": totals.polls,
            "simulated_seconds": totals.sim_secs,
            "faults_fired": totals.faults,
            "probes_hit": totals.probes,
            "distinct_interleavings": totals.interleavings.len(),
            "interleaving_measure": "distinct hashes of the per-run sequence of (step kind, polled task, poll outcome, read/write sizes)",
            "distinct_abstract_states": totals.states.len(),
            "state_measure": "distinct (send quota, awaiting acks, subscriptions, retransmit queue) tuples sampled when run() starts and returns",
            "determinism_rechecks": totals.determinism_rechecks,
            "determinism_mismatches": totals.determinism_mismatches,
            "skipped_steps": totals.skipped_steps,
            "profiles": totals.profiles,
            "arithmetic_profile": opt.profile_tag,
            "runs_with_violation": totals.violation_count,
            "known_findings_hit": known_hit,
            "regression_scenarios_replayed": regressions,
            "violation_classes": reported,
            "components": props::components(),
            "exhaustive": false
        },
        "assumptions": props::assumptions(prop),
    });
    let epath = format!("{evidence_dir}/{prop}.json");
    merge_evidence(&epath, evidence, &opt.profile_tag);
    println!(
        "done {prop}: {} random runs + {} systematic cases, {} distinct non-trivial, {} interleavings, {:.1}s, {} violation class(es), {} known",
        totals.runs,
        totals.systematic_cases,
        totals.nontrivial.len(),
        totals.interleavings.len(),
        wall,
        reported.len(),
        known_hit.len()
    );
    exit
}

/// Writes the evidence file. A second arithmetic profile of the same check invocation is
/// merged into the first one's file (counts added, per-profile details kept).
fn merge_evidence(path: &str, mut ev: serde_json::Value, tag: &str) {
    if tag == "wrapping" {
        if let Ok(s) = std::fs::read_to_string(path) {
            if let Ok(mut prev) = serde_json::from_str::<serde_json::Value>(&s) {
                if prev["tier"] == ev["tier"] && prev["seed"] == ev["seed"] && prev["coverage"]["arithmetic_profile"] == "checked" {
                    let add = |a: &serde_json::Value, b: &serde_json::Value| json!(a.as_u64().unwrap_or(0) + b.as_u64().unwrap_or(0));
                    let cov_prev = prev["coverage"].clone();
                    let cov = &mut prev["coverage"];
                    cov["evaluations"] = add(&cov_prev["evaluations"], &ev["coverage"]["evaluations"]);
                    cov["second_profile"] = ev["coverage"].take();
                    cov["arithmetic_profile"] = json!("checked+wrapping");
                    prev["wall_s"] = json!(prev["wall_s"].as_f64().unwrap_or(0.0) + ev["wall_s"].as_f64().unwrap_or(0.0));
                    prev["violations"] = add(&prev["violations"], &ev["violations"]);
                    std::fs::write(path, serde_json::to_string_pretty(&prev).unwrap()).expect("write evidence");
                    return;
                }
            }
        }
    }
    std::fs::write(path, serde_json::to_string_pretty(&ev).unwrap()).expect("write evidence");
}

pub fn run_replay(path: &str) -> i32 {
    let s = match std::fs::read_to_string(path) {
        Ok(s) => s,
        Err(e) => {
            eprintln!("harness error: cannot read {path}: {e}");
            return 2;
        }
    };
    let rf: ReplayFile = match serde_json::from_str(&s) {
        Ok(r) => r,
        Err(e) => {
            eprintln!("harness error: {path}: {e}");
            return 2;
        }
    };
    if let Some(rg) = &rf.regenerate {
        // a run that never returned: regenerate it on a helper thread and watch the clock
        let tier = if rg.tier == "thorough" { Tier::Thorough } else { Tier::Quick };
        let (prop, seed, index, systematic) = (rf.property.clone(), rf.seed, rg.index, rg.systematic);
        let (tx, rx) = std::sync::mpsc::channel();
        std::thread::spawn(move || {
            let case = if systematic {
                props::systematic(&prop, tier, seed).into_iter().nth(index as usize)
            } else {
                let mut rng = Rng::derive(seed, index, 0);
                Some(props::generate(&prop, tier, &mut rng, index))
            };
            if let Some(case) = case {
                let _ = judge(&prop, &case.scenario, case.aux.as_ref());
            }
            let _ = tx.send(());
        });
        let limit = watchdog_limit().min(60);
        return match rx.recv_timeout(std::time::Duration::from_secs(limit)) {
            Ok(()) => {
                println!("NOT REPRODUCED: {} (the run finished; expected class {})", rf.property, rf.class);
                0
            }
            Err(_) => {
                println!("violation {}: the regenerated run has not returned from a poll for {limit} s", rf.class);
                println!("VIOLATION property={} replay={path}", rf.property);
                println!("reproduced: {}", rf.class);
                std::process::exit(1);
            }
        };
    }
    let j = judge(&rf.property, &rf.scenario, rf.aux.as_ref());
    let w = replay(&rf.scenario);
    for (i, e) in w.events().iter().enumerate() {
        let line = format!("{:?}", e);
        if line.len() > 400 {
            println!("{i:4} {}… [{} chars]", line.chars().take(400).collect::<String>(), line.len());
        } else {
            println!("{i:4} {line}");
        }
    }
    for p in &w.wire {
        let line = format!("{:?}", p.pkt);
        println!("wire conn{} @{}+{} [{}..{}] {}", p.conn, p.off, p.len, p.seq_first, p.seq_last, line.chars().take(300).collect::<String>());
    }
    for x in &j.violations {
        println!("violation {}: {}", x.class, x.message);
    }
    if j.violations.iter().any(|x| x.class == rf.class) {
        println!("VIOLATION property={} replay={path}", rf.property);
        println!("reproduced: {}", rf.class);
        1
    } else {
        println!("NOT REPRODUCED: {} (expected class {})", rf.property, rf.class);
        0
    }
}

/// History hashes of the first `n` generated scenarios of a property, computed by `threads`
/// workers (index i runs on worker i mod threads). Long C11 histories are skipped.
pub fn digests(prop: &str, seed: u64, n: u64, threads: usize) -> Vec<u64> {
    let out = Mutex::new(vec![0u64; n as usize]);
    std::thread::scope(|scope| {
        for t in 0..threads {
            let out = &out;
            scope.spawn(move || {
                let mut idx = t as u64;
                while idx < n {
                    let i = if prop == "C11" { idx * 400 + 1 } else { idx };
                    let mut rng = Rng::derive(seed, i, 0);
                    let case = props::generate(prop, Tier::Quick, &mut rng, i);
                    let j = judge(prop, &case.scenario, case.aux.as_ref());
                    let h = fnv_of(&(j.hist_hash, j.interleaving, j.violations.len(), case.gen_hash));
                    out.lock().unwrap()[idx as usize] = h;
                    idx += threads as u64;
                }
            });
        }
    });
    out.into_inner().unwrap()
}
