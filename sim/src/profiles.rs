//! Generator profiles that need more than the main loop of `gen.rs`.

use crate::check::Case;
use crate::gen::*;
use crate::props::finish_case;
use crate::refcodec::{self as rc, pid, Form, Kind, PropVal, Props};
use crate::rng::Rng;
use crate::scenario::*;
use crate::spec::*;

fn rand_text(rng: &mut Rng, tag: &str) -> String {
    match rng.below(6) {
        0 => String::new(),
        1 => format!("{tag}-ü→✓"),
        _ => format!("{tag}{}", rng.below(1000)),
    }
}

pub fn diag_props(rng: &mut Rng, server_reference: bool) -> Props {
    let mut p = Props::new();
    if rng.coin() {
        p.push(pid::REASON_STRING, PropVal::Str(rand_text(rng, "why")));
    }
    if server_reference && rng.chance(1, 3) {
        p.push(pid::SERVER_REFERENCE, PropVal::Str(rand_text(rng, "srv")));
    }
    for _ in 0..rng.below(3) {
        p.push(pid::USER_PROPERTY, PropVal::Pair(rand_text(rng, "k"), rand_text(rng, "v")));
    }
    let mut items = p.0.clone();
    rng.shuffle(&mut items);
    Props(items)
}

const MALFORMED: &[&[u8]] = &[
    &[0x00, 0x00],                                           // reserved packet type
    &[0x20, 0x03, 0x00, 0x00, 0x05],                         // CONNACK while running, property length beyond the packet
    &[0x36, 0x05, 0x00, 0x01, b'a', 0x00, 0x01],             // PUBLISH with QoS 3
    &[0x30, 0x05, 0x00, 0x01, 0xff, 0x00, 0x00],             // PUBLISH with invalid UTF-8 in the topic
    &[0x90, 0x06, 0x00, 0x01, 0x03, 0x7f, 0x00, 0x00],       // SUBACK with an unknown property id
    &[0x40, 0x04, 0x00, 0x00, 0x00, 0x00],                   // PUBACK with packet identifier 0
    &[0xd0, 0x02, 0x00, 0x00, 0x30, 0xff, 0xff, 0xff, 0xff, 0x7f], // followed by an over-long remaining length
    &[0xe0, 0x02, 0x55, 0x00],                               // DISCONNECT with an undefined reason code
    &[0x50, 0x03, 0x00, 0x01, 0x05],                         // PUBREC with an undefined reason code
];

/// C13: every terminating cause at random session states, plus connect()/authorize() outcomes.
pub fn termination(rng: &mut Rng) -> Case {
    let mut cfg = GenCfg::conformant(rng);
    cfg.inbound = rng.coin();
    if cfg.inbound {
        cfg.w_ops[3] += 2;
    }
    cfg.steps = rng.urange(0, 45);
    let variant = rng.below(20);
    let mut g = Gen::new(cfg, rng);
    if variant < 4 {
        connect_variants(&mut g);
        return finish_case(g, "termination/connect");
    }
    g.preamble();
    for _ in 0..g.cfg.steps {
        g.action();
    }
    let cause = if variant == 4 { 99 } else { g.rng.below(9) };
    let profile = match cause {
        0 | 1 => {
            // user DISCONNECT, possibly with requests queued behind it
            let reasons = [0x00u8, 0x04, 0x80, 0x81, 0x82, 0x83, 0x90, 0x93, 0x94, 0x95, 0x96, 0x97, 0x98, 0x99];
            let spec = DisconnectSpec {
                reason: if g.rng.coin() { Some(*g.rng.pick(&reasons)) } else { None },
                session_expiry: if g.rng.chance(1, 3) { Some(g.rng.range(1, 100000) as u32) } else { None },
                reason_string: if g.rng.chance(1, 3) { Some(rand_text(g.rng, "bye")) } else { None },
                user: if g.rng.chance(1, 4) { vec![("a".into(), "b".into())] } else { vec![] },
            };
            let id = g.next_op_id();
            let handle = g.rng.usize_below(g.cfg.handles.max(1));
            g.push(Step::Op { id, handle, spec: OpSpec::Disconnect(spec) });
            if g.rng.coin() {
                // make sure the DISCONNECT is submitted before what follows
                g.push(Step::Poll(TaskRef::Op(id)));
                for _ in 0..g.rng.below(3) {
                    let id2 = g.next_op_id();
                    let kind = *g.rng.pick(&[0usize, 1, 5, 3]);
                    let spec = g.new_op_spec(kind, id2);
                    g.push(Step::Op { id: id2, handle: 0, spec });
                }
            }
            "termination/user-disconnect"
        }
        2 => {
            let form = *g.rng.pick(&[Form::Full, Form::Shortest, Form::ReasonOnly]);
            let props = if form == Form::Full { diag_props(g.rng, true) } else { Props::new() };
            g.broker(BrokerPkt::Disconnect { reason: 0, props, form });
            "termination/server-disconnect-0"
        }
        3 | 4 => {
            let reason = *g.rng.pick(&rc::server_disconnect_reasons()[1..]);
            let form = *g.rng.pick(&[Form::Full, Form::Full, Form::ReasonOnly]);
            let props = if form == Form::Full { diag_props(g.rng, true) } else { Props::new() };
            g.broker(BrokerPkt::Disconnect { reason, props, form });
            "termination/server-disconnect"
        }
        5 => {
            let k = if g.rng.coin() { FaultKind::ReadEof } else { FaultKind::ReadErr };
            if g.rng.coin() {
                // cut inside a packet
                let n = g.rng.urange(1, 3);
                g.push(Step::Broker { pkt: BrokerPkt::Pingresp, chunks: Chunks::Sizes(vec![1]), hold: true });
                g.push(Step::Deliver { n });
            }
            g.push(Step::Fault(k));
            "termination/read-end"
        }
        6 => {
            let after = g.rng.urange(0, 30);
            let k = if g.rng.chance(3, 4) { FaultKind::WriteErr { after } } else { FaultKind::WriteZero { after } };
            g.push(Step::Fault(k));
            // make the client write
            for _ in 0..3 {
                let id = g.next_op_id();
                g.push(Step::Op { id, handle: 0, spec: OpSpec::Ping });
            }
            "termination/write-fault"
        }
        7 => {
            let live: Vec<usize> = g.world.ops.keys().copied().filter(|i| g.world.is_live(TaskRef::Op(*i))).collect();
            for i in live {
                g.push(Step::CancelOp(i));
            }
            for k in 0..g.cfg.handles.max(1) {
                g.push(Step::DropHandle(k));
            }
            "termination/handles-dropped"
        }
        8 => {
            let bytes = g.rng.pick(MALFORMED).to_vec();
            let chunks = g.chunks(bytes.len());
            g.push(Step::Broker { pkt: BrokerPkt::Raw(bytes), chunks, hold: false });
            "termination/undecodable"
        }
        _ => "termination/no-cause",
    };
    g.push(Step::WriterReady);
    g.push(Step::Deliver { n: usize::MAX });
    g.settle();
    finish_case(g, profile)
}

fn connect_variants(g: &mut Gen) {
    let with_auth = g.rng.chance(1, 2);
    let mut connect = g.connect_spec();
    let rounds = if with_auth { g.rng.urange(0, 2) } else { 0 };
    if with_auth {
        connect.auth_method = Some("SCRAM".into());
        connect.auth_data = Some(g.rng.bytes(4));
    }
    let auths: Vec<AuthSpec> = (0..rounds)
        .map(|i| AuthSpec { reason: Some(0x18), method: Some("SCRAM".into()), data: Some(vec![i as u8; 3]), user: vec![] })
        .collect();
    g.push(Step::Start { connect, auths });
    g.settle();
    let mut responses = rounds + 1;
    while responses > 0 {
        responses -= 1;
        let roll = g.rng.below(10);
        if with_auth && responses > 0 || (with_auth && roll < 3) {
            // AUTH challenge
            let mut props = Props::new().with(pid::AUTH_METHOD, PropVal::Str("SCRAM".into())).with(pid::AUTH_DATA, PropVal::Bin(g.rng.bytes(5)));
            props.0.extend(diag_props(g.rng, false).0);
            g.broker(BrokerPkt::Auth { reason: 0x18, props, form: Form::Full });
        } else if roll < 6 {
            let reasons: Vec<u8> = rc::reason_codes(Kind::Connack).iter().copied().filter(|r| *r >= 0x80).collect();
            let reason = *g.rng.pick(&reasons);
            let props = diag_props(g.rng, true);
            g.broker(BrokerPkt::Connack { session_present: false, reason, props });
            responses = 0;
        } else if roll < 8 {
            // transport ends before / inside the response
            if g.rng.coin() {
                g.push(Step::Broker { pkt: BrokerPkt::Connack { session_present: false, reason: 0, props: Props::new() }, chunks: Chunks::Sizes(vec![2]), hold: true });
                g.push(Step::Deliver { n: 1 });
            }
            let k = if g.rng.coin() { FaultKind::ReadEof } else { FaultKind::ReadErr };
            g.push(Step::Fault(k));
            responses = 0;
        } else {
            let props = g.connack_props();
            let session_present = g.rng.coin();
            g.broker(BrokerPkt::Connack { session_present, reason: 0, props });
            responses = 0;
        }
        g.push(Step::Deliver { n: usize::MAX });
        g.settle();
    }
}

/// C14: histories with operations in every phase, then the context is dropped, then new
/// operations are started and all streams opened.
pub fn teardown(rng: &mut Rng) -> Case {
    let mut cfg = if rng.coin() { GenCfg::inbound(rng) } else { GenCfg::conformant(rng) };
    cfg.steps = rng.urange(0, 50);
    cfg.drain = false;
    let mut g = Gen::new(cfg, rng);
    g.preamble();
    for _ in 0..g.cfg.steps {
        g.action();
    }
    teardown_epilogue(&mut g);
    finish_case(g, "teardown")
}

pub fn teardown_epilogue(g: &mut Gen) {
    if g.rng.chance(1, 6) && g.world.phase() == crate::world::Phase::Idle {
        g.push(Step::End);
    } else {
        g.push(Step::DropContext);
    }
    if g.rng.coin() {
        g.settle();
    }
    let subs: Vec<usize> = g.world.ops.iter().filter(|(_, o)| matches!(o.spec, OpSpec::Subscribe(_))).map(|(k, _)| *k).collect();
    for s in subs {
        g.push(Step::OpenStream(s));
    }
    for _ in 0..g.rng.urange(1, 3) {
        let id = g.next_op_id();
        let kind = g.rng.usize_below(6);
        let spec = g.new_op_spec(kind, id);
        let handle = g.rng.usize_below(g.cfg.handles.max(1));
        g.push(Step::Op { id, handle, spec });
    }
    g.settle();
}

/// C15: conformant + inbound traffic with cancellations at random points, late
/// acknowledgements still delivered, then the quota probe.
pub fn cancel(rng: &mut Rng) -> Case {
    let mut cfg = GenCfg::conformant(rng);
    cfg.cancels = true;
    cfg.inbound = rng.coin();
    cfg.drop_streams = cfg.inbound;
    if cfg.inbound {
        cfg.w_ops[3] += 2;
    }
    cfg.receive_max = if rng.chance(2, 3) { Some(rng.range(1, 6) as u16) } else { None };
    cfg.all_reasons = true;
    let r = cfg.receive_max;
    let mut g = Gen::new(cfg, rng);
    g.preamble();
    for _ in 0..g.cfg.steps {
        g.action();
    }
    g.drain();
    if let Some(r) = r {
        g.quota_probe(r as usize);
    }
    finish_case(g, "cancel")
}
