//! Generator profiles that need more than the main loop of `gen.rs`.

use crate::check::Case;
use crate::gen::*;
use crate::props::finish_case;
use crate::refcodec::{self as rc, pid, Form, Kind, PropVal, Props};
use crate::rng::Rng;
use crate::scenario::*;
use crate::spec::*;

fn rand_text(rng: &mut Rng, tag: &str) -> String {
    match rng.below(6) {
        0 => String::new(),
        1 => format!("{tag}-ü→✓"),
        _ => format!("{tag}{}", rng.below(1000)),
    }
}

pub fn diag_props(rng: &mut Rng, server_reference: bool) -> Props {
    let mut p = Props::new();
    if rng.coin() {
        p.push(pid::REASON_STRING, PropVal::Str(rand_text(rng, "why")));
    }
    if server_reference && rng.chance(1, 3) {
        p.push(pid::SERVER_REFERENCE, PropVal::Str(rand_text(rng, "srv")));
    }
    for _ in 0..rng.below(3) {
        p.push(pid::USER_PROPERTY, PropVal::Pair(rand_text(rng, "k"), rand_text(rng, "v")));
    }
    let mut items = p.0.clone();
    rng.shuffle(&mut items);
    Props(items)
}

const MALFORMED: &[&[u8]] = &[
    &[0x00, 0x00],                                           // reserved packet type
    &[0x20, 0x03, 0x00, 0x00, 0x05],                         // CONNACK while running, property length beyond the packet
    &[0x36, 0x05, 0x00, 0x01, b'a', 0x00, 0x01],             // PUBLISH with QoS 3
    &[0x30, 0x05, 0x00, 0x01, 0xff, 0x00, 0x00],             // PUBLISH with invalid UTF-8 in the topic
    &[0x90, 0x06, 0x00, 0x01, 0x03, 0x7f, 0x00, 0x00],       // SUBACK with an unknown property id
    &[0x40, 0x04, 0x00, 0x00, 0x00, 0x00],                   // PUBACK with packet identifier 0
    &[0xd0, 0x02, 0x00, 0x00, 0x30, 0xff, 0xff, 0xff, 0xff, 0x7f], // followed by an over-long remaining length
    &[0xe0, 0x02, 0x55, 0x00],                               // DISCONNECT with an undefined reason code
    &[0x50, 0x03, 0x00, 0x01, 0x05],                         // PUBREC with an undefined reason code
];

/// C13: every terminating cause at random session states, plus connect()/authorize() outcomes.
pub fn termination(rng: &mut Rng) -> Case {
    let mut cfg = GenCfg::conformant(rng);
    cfg.inbound = rng.coin();
    if cfg.inbound {
        cfg.w_ops[3] += 2;
    }
    cfg.steps = rng.urange(0, 45);
    let variant = rng.below(20);
    // one run in ten: the server limits the packet size and the user's first disconnect() is
    // too large for it - refused, hence no reason for run() to end
    let refused_disconnect = variant >= 4 && rng.chance(1, 10);
    if refused_disconnect {
        cfg.max_packet = Some(rng.range(14, 30) as u32);
        cfg.big_payloads = false;
    }
    let mut g = Gen::new(cfg, rng);
    if variant < 4 {
        connect_variants(&mut g);
        return finish_case(g, "termination/connect");
    }
    g.preamble();
    for _ in 0..g.cfg.steps {
        g.action();
    }
    if refused_disconnect {
        let id = g.next_op_id();
        let spec = DisconnectSpec { reason: Some(0x04), session_expiry: None, reason_string: Some("a reason string that does not fit into thirty bytes".into()), user: vec![] };
        g.push(Step::Op { id, handle: 0, spec: OpSpec::Disconnect(spec) });
        g.settle();
    }
    let cause = if variant == 4 { 99 } else { g.rng.below(9) };
    let profile = match cause {
        0 | 1 => {
            // user DISCONNECT, possibly with requests queued behind it
            let reasons = [0x00u8, 0x04, 0x80, 0x81, 0x82, 0x83, 0x90, 0x93, 0x94, 0x95, 0x96, 0x97, 0x98, 0x99];
            let spec = DisconnectSpec {
                reason: if g.rng.coin() { Some(*g.rng.pick(&reasons)) } else { None },
                session_expiry: if g.rng.chance(1, 3) { Some(g.rng.range(1, 100000) as u32) } else { None },
                reason_string: if g.rng.chance(1, 3) { Some(rand_text(g.rng, "bye")) } else { None },
                user: if g.rng.chance(1, 4) { vec![("a".into(), "b".into())] } else { vec![] },
            };
            let id = g.next_op_id();
            let handle = g.rng.usize_below(g.cfg.handles.max(1));
            g.push(Step::Op { id, handle, spec: OpSpec::Disconnect(spec) });
            let roll = g.rng.below(6);
            if roll < 4 {
                // make sure the DISCONNECT is submitted before what follows
                g.push(Step::Poll(TaskRef::Op(id)));
                if roll == 0 {
                    // the caller abandons the disconnect() future (timeout, select!): the request
                    // has been submitted all the same
                    g.push(Step::CancelOp(id));
                }
                for _ in 0..g.rng.below(3) {
                    let id2 = g.next_op_id();
                    let kind = *g.rng.pick(&[0usize, 1, 5, 3]);
                    let spec = g.new_op_spec(kind, id2);
                    g.push(Step::Op { id: id2, handle: 0, spec });
                }
            }
            "termination/user-disconnect"
        }
        2 => {
            let form = *g.rng.pick(&[Form::Full, Form::Shortest, Form::ReasonOnly]);
            let props = if form == Form::Full { diag_props(g.rng, true) } else { Props::new() };
            g.broker(BrokerPkt::Disconnect { reason: 0, props, form });
            "termination/server-disconnect-0"
        }
        3 | 4 => {
            let reason = *g.rng.pick(&rc::server_disconnect_reasons()[1..]);
            let form = *g.rng.pick(&[Form::Full, Form::Full, Form::ReasonOnly]);
            let props = if form == Form::Full { diag_props(g.rng, true) } else { Props::new() };
            g.broker(BrokerPkt::Disconnect { reason, props, form });
            "termination/server-disconnect"
        }
        5 => {
            let k = match g.rng.below(3) {
                0 => FaultKind::ReadEof,
                1 => FaultKind::ReadErr,
                // a transient error kind, with bytes possibly already readable behind it
                _ => FaultKind::ReadGlitch { kind: g.rng.below(4) as u8 },
            };
            if matches!(k, FaultKind::ReadGlitch { .. }) && g.rng.coin() {
                g.push(Step::Broker { pkt: BrokerPkt::Pingresp, chunks: Chunks::Whole, hold: false });
            }
            if g.rng.coin() {
                // cut inside a packet
                let n = g.rng.urange(1, 3);
                g.push(Step::Broker { pkt: BrokerPkt::Pingresp, chunks: Chunks::Sizes(vec![1]), hold: true });
                g.push(Step::Deliver { n });
            }
            g.push(Step::Fault(k));
            "termination/read-end"
        }
        6 => {
            let after = g.rng.urange(0, 30);
            let k = if g.rng.chance(3, 4) { FaultKind::WriteErr { after } } else { FaultKind::WriteZero { after } };
            g.push(Step::Fault(k));
            // make the client write
            for _ in 0..3 {
                let id = g.next_op_id();
                g.push(Step::Op { id, handle: 0, spec: OpSpec::Ping });
            }
            "termination/write-fault"
        }
        7 => {
            let live: Vec<usize> = g.world.ops.keys().copied().filter(|i| g.world.is_live(TaskRef::Op(*i))).collect();
            for i in live {
                g.push(Step::CancelOp(i));
            }
            for k in 0..g.cfg.handles.max(1) {
                g.push(Step::DropHandle(k));
            }
            "termination/handles-dropped"
        }
        8 => {
            let bytes = g.rng.pick(MALFORMED).to_vec();
            let chunks = g.chunks(bytes.len());
            g.push(Step::Broker { pkt: BrokerPkt::Raw(bytes), chunks, hold: false });
            "termination/undecodable"
        }
        _ => "termination/no-cause",
    };
    g.push(Step::WriterReady);
    g.push(Step::Deliver { n: usize::MAX });
    g.settle();
    finish_case(g, profile)
}

fn connect_variants(g: &mut Gen) {
    let with_auth = g.rng.chance(1, 2);
    let mut connect = g.connect_spec();
    let rounds = if with_auth { g.rng.urange(0, 2) } else { 0 };
    if with_auth {
        connect.auth_method = Some("SCRAM".into());
        connect.auth_data = Some(g.rng.bytes(4));
    }
    let auths: Vec<AuthSpec> = (0..rounds)
        .map(|i| AuthSpec { reason: Some(0x18), method: Some("SCRAM".into()), data: Some(vec![i as u8; 3]), user: vec![] })
        .collect();
    if g.rng.chance(1, 10) {
        // the Context has served a connection before, which was cut inside an inbound packet
        g.cut_connection_prelude();
        g.push(Step::Reconnect { elapsed: 100_000, connect, auths });
    } else {
        g.push(Step::Start { connect, auths });
    }
    g.settle();
    let mut responses = rounds + 1;
    while responses > 0 {
        responses -= 1;
        let roll = g.rng.below(10);
        if with_auth && responses > 0 || (with_auth && roll < 3) {
            // AUTH challenge
            let mut props = Props::new().with(pid::AUTH_METHOD, PropVal::Str("SCRAM".into())).with(pid::AUTH_DATA, PropVal::Bin(g.rng.bytes(5)));
            props.0.extend(diag_props(g.rng, false).0);
            g.broker(BrokerPkt::Auth { reason: 0x18, props, form: Form::Full });
        } else if roll < 6 {
            let reasons: Vec<u8> = rc::reason_codes(Kind::Connack).iter().copied().filter(|r| *r >= 0x80).collect();
            let reason = *g.rng.pick(&reasons);
            let mut props = diag_props(g.rng, true);
            if g.rng.chance(1, 3) {
                // legal in a refusal, and must not trip the assertion documented for a success
                let at = g.rng.usize_below(props.0.len() + 1);
                props.0.insert(at, (pid::SUBSCRIPTION_ID_AVAILABLE, PropVal::Byte(0)));
            }
            g.broker(BrokerPkt::Connack { session_present: false, reason, props });
            responses = 0;
        } else if roll < 8 {
            // transport ends before / inside the response
            if g.rng.coin() {
                g.push(Step::Broker { pkt: BrokerPkt::Connack { session_present: false, reason: 0, props: Props::new() }, chunks: Chunks::Sizes(vec![2]), hold: true });
                g.push(Step::Deliver { n: 1 });
            }
            let k = if g.rng.coin() { FaultKind::ReadEof } else { FaultKind::ReadErr };
            g.push(Step::Fault(k));
            responses = 0;
        } else {
            let props = g.connack_props();
            let session_present = g.rng.coin();
            g.broker(BrokerPkt::Connack { session_present, reason: 0, props });
            responses = 0;
        }
        g.push(Step::Deliver { n: usize::MAX });
        g.settle();
    }
}

/// C14: histories with operations in every phase, then the context is dropped, then new
/// operations are started and all streams opened.
pub fn teardown(rng: &mut Rng) -> Case {
    let mut cfg = if rng.coin() { GenCfg::inbound(rng) } else { GenCfg::conformant(rng) };
    cfg.steps = rng.urange(0, 50);
    cfg.drain = false;
    cfg.inbound_multi_ids = cfg.inbound && rng.coin();
    if rng.chance(1, 3) {
        // an executor that honours only the latest waker of a task, and polls that come without
        // a wake-up: whoever parks on the waker of an earlier poll is never woken again
        cfg.strict_wakers = true;
        cfg.spurious = true;
    }
    let mut g = Gen::new(cfg, rng);
    g.preamble();
    for _ in 0..g.cfg.steps {
        g.action();
    }
    if g.rng.chance(1, 6) {
        // a long backlog: many messages received for a subscription whose stream is opened
        // (and drained in one go) only after the context is gone
        let subs = g.unopened_subs();
        if !subs.is_empty() {
            let sub = *g.rng.pick(&subs);
            let mut n = *g.rng.pick(&[15usize, 16, 17, 31, 32, 33, 63, 64, 65, 100, 130]);
            if g.rng.chance(1, 30) {
                n = *g.rng.pick(&[255usize, 256, 257, 1023, 1024, 1025, 1026, 1100]);
            }
            for _ in 0..n {
                g.inbound_publish_to(sub);
            }
            g.flush();
        }
    }
    teardown_epilogue(&mut g);
    finish_case(g, "teardown")
}

pub fn teardown_epilogue(g: &mut Gen) {
    if g.rng.chance(1, 5) && g.world.phase() == crate::world::Phase::Running {
        // the transport fails while the context writes one last request: run() returns the
        // error, and the caller has not been polled again when the context is dropped - it is
        // "still pending" at the drop whatever the context had meant to tell it
        let after = if g.rng.coin() { 0 } else { g.rng.urange(1, 12) };
        g.push(Step::Fault(FaultKind::WriteErr { after }));
        let id = g.next_op_id();
        let spec = match g.rng.below(4) {
            0 => OpSpec::Disconnect(DisconnectSpec::default()),
            1 => g.new_op_spec(1, id),
            2 => OpSpec::Ping,
            _ => g.new_op_spec(0, id),
        };
        let handle = g.rng.usize_below(g.cfg.handles.max(1));
        g.push(Step::Op { id, handle, spec });
        g.push(Step::Poll(TaskRef::Op(id)));
        g.push(Step::Poll(TaskRef::Ctx));
        if g.rng.chance(1, 4) {
            g.push(Step::Poll(TaskRef::Ctx));
        }
    }
    if g.rng.chance(1, 4) {
        // a disconnect() that is submitted (or not even polled) but not yet served at the drop
        let id = g.next_op_id();
        let handle = g.rng.usize_below(g.cfg.handles.max(1));
        g.push(Step::Op { id, handle, spec: OpSpec::Disconnect(DisconnectSpec::default()) });
        if g.rng.coin() {
            g.push(Step::Poll(TaskRef::Op(id)));
        }
    }
    if g.rng.chance(1, 6) && g.world.phase() == crate::world::Phase::Idle {
        g.push(Step::End);
    } else {
        g.push(Step::DropContext);
    }
    if g.rng.coin() {
        g.settle();
    }
    let subs: Vec<usize> = g.world.ops.iter().filter(|(_, o)| matches!(o.spec, OpSpec::Subscribe(_))).map(|(k, _)| *k).collect();
    for s in subs {
        g.push(Step::OpenStream(s));
    }
    for _ in 0..g.rng.urange(1, 3) {
        let id = g.next_op_id();
        let kind = g.rng.usize_below(6);
        let spec = g.new_op_spec(kind, id);
        let handle = g.rng.usize_below(g.cfg.handles.max(1));
        g.push(Step::Op { id, handle, spec });
    }
    g.settle();
}

/// C15: conformant + inbound traffic with cancellations at random points, late
/// acknowledgements still delivered, then the quota probe.
pub fn cancel(rng: &mut Rng) -> Case {
    let mut cfg = GenCfg::conformant(rng);
    cfg.cancels = true;
    cfg.inbound = rng.coin();
    cfg.drop_streams = cfg.inbound;
    if cfg.inbound {
        cfg.w_ops[3] += 2;
        cfg.inbound_multi_ids = rng.coin();
        if rng.chance(1, 3) {
            // re-deliveries of unreleased QoS 2 messages: a dropped stream among the addressees
            // must not make the survivors see the message twice
            cfg.redeliver = true;
            cfg.inbound_unknown_ids = false;
            cfg.inbound_absent_ids = false;
        }
    }
    cfg.receive_max = if rng.chance(2, 3) { Some(rng.range(1, 6) as u16) } else { None };
    cfg.all_reasons = true;
    let sized = rng.chance(1, 4);
    if sized {
        // the server limits the packet size: refusals of requests whose caller is already gone
        cfg.max_packet = Some(rng.range(30, 60) as u32);
        cfg.oversize_pct = 40;
        cfg.big_payloads = false;
    }
    let r = cfg.receive_max;
    let mut g = Gen::new(cfg, rng);
    g.preamble();
    for _ in 0..g.cfg.steps {
        if sized && g.rng.chance(1, 6) {
            // submitted (first poll), abandoned before the context looks at it
            let id = g.next_op_id();
            let kind = g.rng.weighted(&[2, 2, 2, 1, 1, 0]);
            let spec = g.new_op_spec(kind, id);
            let handle = g.rng.usize_below(g.cfg.handles.max(1));
            g.push(Step::Op { id, handle, spec });
            g.push(Step::Poll(TaskRef::Op(id)));
            g.push(Step::CancelOp(id));
        }
        g.action();
    }
    g.drain();
    if g.rng.chance(1, 4) && g.id_comes_round() {
        g.drain();
    }
    if let Some(r) = r {
        g.quota_probe(r as usize);
    }
    finish_case(g, "cancel")
}

// ---------------------------------------------------------------------------------------
// C03 / C16

/// Framing profile: conformant + inbound traffic whose bytes arrive in adversarial chunkings
/// (1-byte reads, small random reads, held chunks released late, read gates). No Receive
/// Maximum, so that the outcome does not depend on *when* an acknowledgement arrives.
pub fn framing(rng: &mut Rng) -> Case {
    let mut cfg = if rng.coin() { GenCfg::inbound(rng) } else { GenCfg::conformant(rng) };
    cfg.receive_max = None;
    cfg.read_style = *rng.pick(&[ReadStyle::Bytes1, ReadStyle::Small, ReadStyle::Mixed, ReadStyle::Small]);
    cfg.hold_pct = *rng.pick(&[0, 40, 80]);
    cfg.big_payloads = rng.chance(1, 2);
    cfg.gates = rng.chance(1, 3);
    cfg.scribble = rng.chance(1, 3);
    cfg.writer_tweaks = false;
    cfg.drop_streams = false;
    cfg.drain = true;
    cfg.always_settle = true;
    let mut g = Gen::new(cfg, rng);
    g.preamble();
    for _ in 0..g.cfg.steps {
        g.action();
    }
    g.drain();
    let mut case = finish_case(g, "framing");
    // the framing oracle runs scenarios in "settle after every step" form
    case.scenario = settle_everywhere(&case.scenario);
    let w = replay(&case.scenario);
    case.gen_hash = Some(w.history_hash());
    drop(w);
    let _ = poster::verif::take_probes();
    case
}

/// The same scenario with one read per packet (reference framing).
pub fn whole_reads(sc: &Scenario) -> Scenario {
    let mut out = sc.clone();
    out.config.scribble = false;
    out.config.coalesce = false;
    for s in out.steps.iter_mut() {
        match s {
            Step::Broker { chunks, hold, .. } => {
                *chunks = Chunks::Whole;
                *hold = false;
            }
            Step::ReadGate => *s = Step::Deliver { n: 0 },
            _ => {}
        }
    }
    out
}

/// C16 base scenarios: any of the interactive profiles, wake-only.
pub fn wake_base(rng: &mut Rng) -> Case {
    let pick = rng.below(4);
    let mut cfg = match pick {
        0 => GenCfg::conformant(rng),
        1 => GenCfg::inbound(rng),
        _ => {
            let mut c = if rng.coin() { GenCfg::inbound(rng) } else { GenCfg::conformant(rng) };
            c.read_style = *rng.pick(&[ReadStyle::Bytes1, ReadStyle::Small, ReadStyle::Whole]);
            c.hold_pct = *rng.pick(&[0, 50]);
            c
        }
    };
    cfg.writer_tweaks = rng.coin();
    cfg.gates = false;
    cfg.select = match rng.below(3) {
        0 => SelectPolicy::PacketFirst,
        1 => SelectPolicy::MessageFirst,
        _ => SelectPolicy::Hashed(rng.next_u64()),
    };
    let mut g = Gen::new(cfg, rng);
    g.preamble();
    let burst_at = if g.rng.chance(1, 12) { Some(g.rng.usize_below(g.cfg.steps.max(1))) } else { None };
    // one run in twelve: a transient read error somewhere (whatever the library makes of it,
    // it must not be left pending without a wake-up while input is readable)
    let glitch_at = if g.rng.chance(1, 12) { Some(g.rng.usize_below(g.cfg.steps.max(1))) } else { None };
    // one run in ten: a message that fills the client's 512-byte read exactly, then silence
    let exact_at = if g.rng.chance(1, 10) { Some(g.rng.usize_below(g.cfg.steps.max(1))) } else { None };
    for k in 0..g.cfg.steps {
        if burst_at == Some(k) {
            g.burst();
        }
        if glitch_at == Some(k) {
            let kind = g.rng.below(4) as u8;
            g.push(Step::Fault(FaultKind::ReadGlitch { kind }));
        }
        if exact_at == Some(k) {
            g.settle();
            g.inbound_exact_fill();
        }
        g.action();
    }
    if g.rng.coin() {
        g.drain();
    } else {
        g.flush();
    }
    let mut case = finish_case(g, "wake-base");
    // spurious variant: extra polls of tasks whose waker has not fired, at random positions
    let mut sp = case.scenario.clone();
    let n = rng.urange(1, 12);
    for _ in 0..n {
        let pos = rng.urange(2, sp.steps.len());
        let pick = rng.usize_below(8);
        sp.steps.insert(pos, Step::Spurious { pick });
    }
    case.aux = Some(sp);
    case
}

/// Inserts a run-to-quiescence after every step (the framing oracle's scheduling discipline).
pub fn settle_everywhere(sc: &Scenario) -> Scenario {
    let mut out = Scenario { config: sc.config.clone(), steps: Vec::with_capacity(sc.steps.len() * 2) };
    for (i, s) in sc.steps.iter().enumerate() {
        out.steps.push(s.clone());
        let next_is_settle = matches!(sc.steps.get(i + 1), Some(Step::Settle { .. }));
        if !matches!(s, Step::Settle { .. }) && !next_is_settle {
            out.steps.push(Step::Settle { seed: i as u64 });
        }
    }
    out
}

/// All compositions of `n` into positive parts, as chunk size lists (2^(n-1) of them).
pub fn compositions(n: usize) -> Vec<Vec<usize>> {
    let mut out = Vec::new();
    if n == 0 {
        return out;
    }
    for mask in 0u32..(1u32 << (n - 1)) {
        let mut sizes = Vec::new();
        let mut cur = 1usize;
        for bit in 0..(n - 1) {
            if mask & (1 << bit) != 0 {
                sizes.push(cur);
                cur = 1;
            } else {
                cur += 1;
            }
        }
        sizes.push(cur);
        out.push(sizes);
    }
    out
}

fn sys_case(prefix: &[Step], packets: &[Vec<u8>], sizes: Vec<usize>, pending_between: bool, tail: &[Step], config: &Config) -> Case {
    let blob: Vec<u8> = packets.iter().flatten().copied().collect();
    let mut steps = prefix.to_vec();
    let n_chunks = Chunks::Sizes(sizes.clone()).cut(&blob).len();
    steps.push(Step::Broker { pkt: BrokerPkt::Raw(blob), chunks: Chunks::Sizes(sizes), hold: pending_between });
    if pending_between {
        for k in 0..n_chunks {
            steps.push(Step::Deliver { n: 1 });
            steps.push(Step::Settle { seed: k as u64 });
        }
    }
    steps.push(Step::Settle { seed: 7 });
    steps.extend_from_slice(tail);
    let mut reference = prefix.to_vec();
    for p in packets {
        reference.push(Step::Broker { pkt: BrokerPkt::Raw(p.clone()), chunks: Chunks::Whole, hold: false });
        reference.push(Step::Settle { seed: 7 });
    }
    reference.extend_from_slice(tail);
    Case {
        scenario: Scenario { config: config.clone(), steps },
        aux: Some(Scenario { config: config.clone(), steps: reference }),
        profile: "framing/systematic",
        gen_hash: None,
        systematic: true,
    }
}

/// Systematic framing sweeps: every composition of short streams, every cut position and
/// every alignment against the 512/1024-byte buffer steps for long ones.
pub fn systematic_framing(thorough: bool) -> Vec<Case> {
    use crate::refcodec::{encode, encode_form, Ack, Connack, Packet, Publish, SubAck};
    let mut cases = Vec::new();
    let config = Config::default();
    let connect = ConnectSpec { client_id: Some("sim".into()), ..Default::default() };
    // ---- (1) connect(): CONNACK in every composition, then a ping round trip
    let connacks: Vec<Vec<u8>> = vec![
        encode(&Packet::Connack(Connack { session_present: false, reason: 0, props: Props::new() })),
        encode(&Packet::Connack(Connack { session_present: true, reason: 0, props: Props::new().with(pid::RECEIVE_MAXIMUM, PropVal::U16(9)) })),
        encode(&Packet::Connack(Connack {
            session_present: false,
            reason: 0,
            props: Props::new().with(pid::RECEIVE_MAXIMUM, PropVal::U16(9)).with(pid::TOPIC_ALIAS_MAXIMUM, PropVal::U16(3)),
        })),
    ];
    let ping_tail = vec![
        Step::Op { id: 0, handle: 0, spec: OpSpec::Ping },
        Step::Settle { seed: 1 },
        Step::Broker { pkt: BrokerPkt::Pingresp, chunks: Chunks::Each(1), hold: false },
        Step::Settle { seed: 2 },
    ];
    let prefix = vec![Step::Start { connect: connect.clone(), auths: vec![] }, Step::Settle { seed: 0 }];
    for (i, ca) in connacks.iter().enumerate() {
        if !thorough && i == 2 {
            continue;
        }
        // the ping response rides in the same stream: bytes beyond the CONNACK are read by connect()
        for sizes in compositions(ca.len()) {
            for pending in [false, true] {
                cases.push(sys_case(&prefix, &[ca.clone()], sizes.clone(), pending, &ping_tail, &config));
            }
        }
    }
    // ---- (2) run(): requests on the wire, then a blob of responses in every composition
    let run_prefix = vec![
        Step::Start { connect: connect.clone(), auths: vec![] },
        Step::Settle { seed: 0 },
        Step::Broker { pkt: BrokerPkt::Connack { session_present: false, reason: 0, props: Props::new() }, chunks: Chunks::Whole, hold: false },
        Step::Settle { seed: 1 },
        Step::Op { id: 0, handle: 0, spec: OpSpec::Subscribe(SubscribeSpec { filters: vec![("f/0/x".into(), SubOptSpec::default())], user: vec![] }) },
        Step::Settle { seed: 2 },
        Step::Broker { pkt: BrokerPkt::Ack { op: 0, kind: AckKind::Suback, reasons: vec![0], props: Props::new(), form: Form::Full }, chunks: Chunks::Whole, hold: false },
        Step::Settle { seed: 3 },
        Step::OpenStream(0),
        Step::Op { id: 1, handle: 0, spec: OpSpec::Ping },
        Step::Op { id: 2, handle: 0, spec: OpSpec::Publish(PublishSpec { qos: Some(1), topic: Some("t/2".into()), payload: Some(b"x".to_vec()), ..Default::default() }) },
        Step::Settle { seed: 4 },
    ];
    // identifiers as the client assigned them in this prefix
    let mut proto = crate::world::World::new(config.clone());
    for s in &run_prefix {
        proto.exec(s);
    }
    let sub_id = *proto.op_subid.get(&0).expect("prototype subscribe on the wire");
    let pub_id = *proto.op_pid.get(&2).expect("prototype publish on the wire");
    drop(proto);
    let _ = poster::verif::take_probes();
    let msg = |payload: Vec<u8>, qos: u8, id: u16| {
        encode(&Packet::Publish(Publish {
            dup: false,
            qos,
            retain: false,
            topic: "a".into(),
            pid: if qos > 0 { Some(id) } else { None },
            props: Props::new().with(pid::SUBSCRIPTION_ID, PropVal::VarInt(sub_id)),
            payload,
        }))
    };
    let pingresp = vec![0xd0, 0x00];
    let puback_short = encode_form(&Packet::Puback(Ack { pid: pub_id, reason: 0, props: Props::new() }), Form::Shortest);
    let _ = SubAck { pid: 1, props: Props::new(), reasons: vec![] };
    let short_streams: Vec<Vec<Vec<u8>>> = if thorough {
        vec![
            vec![pingresp.clone(), puback_short.clone(), msg(b"x".to_vec(), 0, 0)],
            vec![msg(b"y".to_vec(), 1, 7), pingresp.clone(), puback_short.clone()],
        ]
    } else {
        vec![vec![pingresp.clone(), msg(b"x".to_vec(), 0, 0)], vec![puback_short.clone(), pingresp.clone(), vec![]].into_iter().filter(|p| !p.is_empty()).collect()]
    };
    let run_tail = vec![Step::Settle { seed: 9 }];
    for pk in &short_streams {
        let n: usize = pk.iter().map(|p| p.len()).sum();
        for sizes in compositions(n) {
            cases.push(sys_case(&run_prefix, pk, sizes, false, &run_tail, &config));
        }
    }
    // ---- (3) long streams: every cut position, alignments against 512 / 1024, fixed chunk sizes
    let long: Vec<Vec<u8>> = vec![
        msg(vec![b'a'; 497], 0, 0), // ends at 508
        pingresp.clone(),           // 510
        msg(vec![b'b'; 3], 1, 9),   // straddles 512
        puback_short.clone(),
        msg(vec![b'c'; 500], 2, 10), // to ~1045: crosses 1024
        pingresp.clone(),
        msg(vec![b'd'; 1100], 0, 0), // crosses 1536, 2048
        msg(vec![b'e'; 2], 0, 0),
    ];
    let total: usize = long.iter().map(|p| p.len()).sum();
    let stride = if thorough { 1 } else { 3 };
    let mut cut = 1;
    while cut < total {
        cases.push(sys_case(&run_prefix, &long, vec![cut], false, &run_tail, &config));
        cut += stride;
    }
    let firsts: Vec<usize> = (1..total).step_by(if thorough { 17 } else { 97 }).collect();
    for k in (512..total).step_by(512) {
        for d in [-2i64, -1, 0, 1, 2] {
            let second = (k as i64 + d) as usize;
            for &f in &firsts {
                if f < second && second < total {
                    cases.push(sys_case(&run_prefix, &long, vec![f, second - f], false, &run_tail, &config));
                }
            }
        }
    }
    for size in [1usize, 2, 3, 5, 511, 512, 513, 1023, 1024, 1025] {
        for pending in [false, true] {
            if pending && size < 5 && !thorough {
                continue;
            }
            let sizes = vec![size; total / size + 1];
            cases.push(sys_case(&run_prefix, &long, sizes, pending, &run_tail, &config));
        }
    }
    // ---- (3b) many small packets per read: 15..130 messages (counts next to powers of two)
    // in one read, in 512-byte reads, and in two reads cut inside a packet
    {
        let counts: &[usize] = if thorough { &[15, 16, 17, 31, 32, 33, 34, 63, 64, 65, 100, 130] } else { &[16, 32, 33, 34, 65] };
        for &n in counts {
            let many: Vec<Vec<u8>> = (0..n).map(|k| msg(format!("s{k}").into_bytes(), if k % 5 == 4 { 1 } else { 0 }, 100 + k as u16)).collect();
            let total: usize = many.iter().map(|p| p.len()).sum();
            cases.push(sys_case(&run_prefix, &many, vec![total], false, &run_tail, &config));
            cases.push(sys_case(&run_prefix, &many, vec![512; total / 512 + 1], false, &run_tail, &config));
            cases.push(sys_case(&run_prefix, &many, vec![total / 2 + 3], true, &run_tail, &config));
            cases.push(sys_case(&run_prefix, &many, vec![total - 1], true, &run_tail, &config));
        }
    }
    // ---- (3c) reads that are filled exactly (512 / 1024 bytes) by complete packets, with
    // nothing behind them: everything in the buffer must be handled without waiting for more
    {
        let sized = |total: usize, qos: u8, id: u16| -> Vec<u8> {
            // payload length such that the whole packet is `total` bytes long
            let mut n = total.saturating_sub(16);
            loop {
                let p = msg(vec![b'f'; n], qos, id);
                if p.len() == total {
                    return p;
                }
                if p.len() > total {
                    n -= p.len() - total;
                } else {
                    n += total - p.len();
                }
            }
        };
        for total in [512usize, 1024] {
            let one = vec![sized(total, 1, 21)];
            let two = vec![sized(total - 100, 0, 0), sized(100, 1, 22)];
            let with_ping = vec![pingresp.clone(), sized(total - 2, 2, 23)];
            for pk in [one, two, with_ping] {
                cases.push(sys_case(&run_prefix, &pk, vec![total], false, &run_tail, &config));
                cases.push(sys_case(&run_prefix, &pk, vec![512; total / 512], false, &run_tail, &config));
            }
        }
    }
    // ---- (4) remaining lengths of 3 (and, thorough, 4) bytes
    let big = msg(vec![b'z'; 20_000], 0, 0);
    let big_stream = vec![pingresp.clone(), big.clone(), pingresp.clone()];
    for c in [1usize, 2, 3, 4, 5, 6, 7, 8, 511, 512, 513, 514, 1024, 4096, 16384, 20_000, 20_010, 20_011, 20_012] {
        cases.push(sys_case(&run_prefix, &big_stream, vec![c], false, &run_tail, &config));
    }
    cases.push(sys_case(&run_prefix, &big_stream, vec![700; 40], true, &run_tail, &config));
    // a packet beyond 64 KiB followed back to back by small ones, in socket-sized reads: the
    // read that completes the large packet also carries the beginning of the next one
    {
        let large = msg(vec![b'L'; 70_000], 0, 0);
        let after = vec![large, msg(b"after".to_vec(), 1, 31), pingresp.clone(), msg(b"more".to_vec(), 0, 0)];
        let total: usize = after.iter().map(|p| p.len()).sum();
        for size in [300usize, 400, 511, 1000] {
            cases.push(sys_case(&run_prefix, &after, vec![size; total / size + 1], false, &run_tail, &config));
        }
    }
    // 4-byte remaining length (>= 2 097 152): a few cuts in quick, the full set in thorough
    {
        let huge = msg(vec![b'q'; 2_100_000], 1, 77);
        let edge = msg(vec![b'r'; 2_097_152 - 8], 0, 0); // remaining length exactly 2 097 152
        let hs = vec![huge, pingresp.clone(), edge, pingresp.clone()];
        let cuts: &[usize] = if thorough { &[1, 3, 4, 5, 6, 512, 65_536, 2_099_999, 2_100_013, 2_100_020, 4_000_000] } else { &[4, 6, 2_100_013] };
        for &c in cuts {
            cases.push(sys_case(&run_prefix, &hs, vec![c], false, &run_tail, &config));
        }
        if thorough {
            cases.push(sys_case(&run_prefix, &hs, vec![65_536; 70], false, &run_tail, &config));
        }
    }
    cases
}

// ---------------------------------------------------------------------------------------
// C12 — Maximum Packet Size

fn ref_len(spec: &OpSpec) -> usize {
    spec.expected().map(|p| crate::refcodec::encode(&p).len()).unwrap_or(0)
}

/// Pads `spec` so that the reference encoding is exactly `target` bytes long, if possible.
pub fn pad_to(spec: &mut OpSpec, target: usize, rng: &mut Rng) {
    for _ in 0..6 {
        let cur = ref_len(spec);
        if cur == target {
            return;
        }
        let delta = target as i64 - cur as i64;
        let grow = |v: &mut Vec<u8>, d: i64| {
            if d > 0 {
                v.extend(std::iter::repeat(b'.').take(d as usize));
            } else {
                let n = (-d) as usize;
                let keep = v.len().saturating_sub(n);
                v.truncate(keep);
            }
        };
        let grow_s = |v: &mut String, d: i64| {
            if d > 0 {
                // strings are limited to 65535 bytes; stay well below
                let d = (d as usize).min(60_000usize.saturating_sub(v.len()));
                v.extend(std::iter::repeat('.').take(d));
            } else {
                let n = (-d) as usize;
                let keep = v.len().saturating_sub(n).max(v.find(|c: char| c == '.').unwrap_or(v.len()).min(v.len()));
                v.truncate(keep);
            }
        };
        match spec {
            OpSpec::Publish(p) => {
                if rng.coin() || delta < 0 || target > 50_000 {
                    grow(p.payload.get_or_insert_with(Vec::new), delta);
                } else if rng.coin() {
                    let t = p.topic.get_or_insert_with(String::new);
                    if !t.ends_with('/') && !t.contains('.') {
                        t.push('/');
                    }
                    grow_s(t, delta - 1);
                } else {
                    if p.user.is_empty() {
                        p.user.push((String::new(), String::new()));
                    }
                    grow_s(&mut p.user[0].1, delta - 5);
                }
            }
            OpSpec::Subscribe(s) => {
                let last = s.filters.len() - 1;
                let f = &mut s.filters[last].0;
                if !f.contains('.') && !f.ends_with('/') {
                    f.push('/');
                }
                grow_s(f, delta - 1);
            }
            OpSpec::Unsubscribe(u) => {
                let last = u.filters.len() - 1;
                let f = &mut u.filters[last];
                if !f.contains('.') && !f.ends_with('/') {
                    f.push('/');
                }
                grow_s(f, delta - 1);
            }
            OpSpec::Disconnect(d) => {
                let extra = if d.reason_string.is_none() { 3 } else { 0 };
                grow_s(d.reason_string.get_or_insert_with(String::new), delta - extra);
            }
            OpSpec::Ping => return,
        }
    }
}

pub fn maxpacket(rng: &mut Rng) -> Case {
    let mut cfg = GenCfg::conformant(rng);
    cfg.receive_max = if rng.coin() { Some(rng.range(1, 4) as u16) } else { None };
    cfg.writer_tweaks = rng.chance(1, 4);
    cfg.all_reasons = false;
    let m: Option<u32> = match rng.below(12) {
        0 => None,
        1 => Some(1),
        2 => Some(2),
        3 => Some(3),
        4 => Some(u32::MAX),
        5 => Some(rng.range(128, 140) as u32),     // around the 1->2 byte remaining length boundary
        6 => Some(rng.range(16_380, 16_395) as u32), // around the 2->3 byte boundary
        7 => Some(rng.range(65_000, 70_000) as u32),
        _ => Some(rng.range(12, 90) as u32),
    };
    cfg.max_packet = m;
    // the client's OWN Maximum Packet Size (its limit for the server), smaller than what the
    // server allows: requests around that size must all be written
    let own: Option<u32> = if m.map(|m| m > 400).unwrap_or(true) && rng.chance(1, 2) { Some(rng.range(100, 250) as u32) } else { None };
    cfg.own_max_packet = own;
    // one run in four: the server still has a session of this client (Session Present = 1 in
    // the very first CONNACK) - the announced limit counts all the same
    cfg.session_present_first = rng.chance(1, 4);
    let r = cfg.receive_max;
    let n_ops = rng.urange(1, 9);
    let mut g = Gen::new(cfg, rng);
    if g.rng.chance(1, 4) {
        // the CONNACK that announces M ends an extended authentication exchange
        let mut connect = g.connect_spec();
        connect.auth_method = Some("M".into());
        connect.auth_data = Some(vec![1, 2]);
        let rounds = g.rng.urange(1, 2);
        let auths = (0..rounds).map(|i| AuthSpec { reason: Some(0x18), method: Some("M".into()), data: Some(vec![i as u8]), user: vec![] }).collect();
        g.push(Step::Start { connect, auths });
        g.settle();
        for _ in 0..rounds {
            let props = Props::new().with(pid::AUTH_METHOD, PropVal::Str("M".into())).with(pid::AUTH_DATA, PropVal::Bin(vec![9]));
            g.broker(BrokerPkt::Auth { reason: 0x18, props, form: Form::Full });
            g.push(Step::Deliver { n: usize::MAX });
            g.settle();
        }
        let props = g.connack_props();
        let session_present = g.cfg.session_present_first;
        g.broker(BrokerPkt::Connack { session_present, reason: 0, props });
        g.push(Step::Deliver { n: usize::MAX });
        g.settle();
    } else {
        g.preamble();
    }
    if g.rng.chance(1, 3) {
        // the transport takes only a few bytes per write: "written in full" means all of them
        let sizes = (0..g.rng.urange(1, 3)).map(|_| g.rng.urange(1, 17)).collect();
        g.push(Step::WriterSizes { sizes });
    }
    // subscriptions established before the requests under test: a refusal must leave their
    // registrations alone (they get a message each at the end)
    let mut anchors: Vec<usize> = Vec::new();
    if g.rng.chance(1, 3) {
        for _ in 0..g.rng.urange(1, 3) {
            let id = g.next_op_id();
            let spec = g.new_op_spec(3, id);
            g.push(Step::Op { id, handle: 0, spec });
            g.settle();
            if g.ack_candidates().contains(&(id, AckKind::Suback)) {
                g.send_ack(id, AckKind::Suback);
                g.push(Step::Deliver { n: usize::MAX });
                g.settle();
                g.open_stream(id);
                anchors.push(id);
            }
        }
    }
    for _ in 0..n_ops {
        let id = g.next_op_id();
        let kind = g.rng.weighted(&[2, 3, 2, 2, 2, 1]);
        let mut spec = g.new_op_spec(kind, id);
        if let (Some(c), true) = (own, g.rng.coin()) {
            let target = (c as i64 + *g.rng.pick(&[-1i64, 0, 1, 1, 9, 40])) as usize;
            pad_to(&mut spec, target, g.rng);
        } else if let Some(m) = m {
            if m >= 4 && m < 100_000 {
                let target = (m as i64 + *g.rng.pick(&[-1i64, 0, 0, 1, 1, -7, 9])) as usize;
                pad_to(&mut spec, target, g.rng);
            }
        }
        let handle = g.rng.usize_below(g.cfg.handles.max(1));
        g.push(Step::Op { id, handle, spec });
        if g.rng.chance(3, 4) {
            g.settle();
        }
        if g.rng.coin() {
            let acks = g.ack_candidates();
            if !acks.is_empty() {
                let (op, kind) = acks[g.rng.usize_below(acks.len())];
                g.send_ack(op, kind);
                g.settle();
            }
        }
    }
    g.drain();
    for a in anchors.clone() {
        g.inbound_publish_to(a);
    }
    if !anchors.is_empty() {
        g.flush();
    }
    if let (Some(r), true) = (r, m.map(|m| m >= 20).unwrap_or(true)) {
        g.quota_probe(r as usize);
    }
    let mut m = m;
    if g.rng.chance(1, 4) {
        // the same Context serves a second connection whose CONNACK announces a different limit
        let k = if g.rng.coin() { FaultKind::ReadEof } else { FaultKind::ReadErr };
        g.push(Step::Fault(k));
        g.settle();
        let connect = g.connect_spec();
        g.push(Step::Reconnect { elapsed: 5, connect, auths: vec![] });
        g.settle();
        let m2: Option<u32> = match g.rng.below(6) {
            0 => None,
            1 => Some(u32::MAX),
            2 => m.map(|x| x.saturating_add(g.rng.range(1, 40) as u32)),
            3 => m.map(|x| x.saturating_sub(g.rng.range(1, 40) as u32).max(1)),
            _ => Some(g.rng.range(12, 90) as u32),
        };
        g.cfg.max_packet = m2;
        m = m2;
        let props = g.connack_props();
        g.broker(BrokerPkt::Connack { session_present: false, reason: 0, props });
        g.push(Step::Deliver { n: usize::MAX });
        g.settle();
        for _ in 0..g.rng.urange(1, 5) {
            let id = g.next_op_id();
            let kind = g.rng.weighted(&[2, 3, 2, 2, 2, 1]);
            let mut spec = g.new_op_spec(kind, id);
            if let Some(m) = m {
                if m >= 4 && m < 100_000 {
                    let target = (m as i64 + *g.rng.pick(&[-1i64, 0, 0, 1, 1, -7, 9])) as usize;
                    pad_to(&mut spec, target, g.rng);
                }
            }
            g.push(Step::Op { id, handle: 0, spec });
            g.settle();
        }
        g.drain();
    }
    if g.rng.chance(1, 4) {
        // a DISCONNECT as the very last request
        let id = g.next_op_id();
        let mut spec = OpSpec::Disconnect(DisconnectSpec { reason: None, session_expiry: None, reason_string: Some("bye".into()), user: vec![] });
        if let Some(m) = m {
            if m >= 8 && m < 100_000 {
                let target = (m as i64 + *g.rng.pick(&[-1i64, 0, 1])) as usize;
                pad_to(&mut spec, target, g.rng);
            }
        }
        g.push(Step::Op { id, handle: 0, spec });
        g.settle();
    }
    finish_case(g, "maxpacket")
}

/// The same scenario with no Maximum Packet Size announced (used to read packet lengths off the wire).
pub fn without_max_packet(sc: &Scenario) -> Scenario {
    let mut out = sc.clone();
    for s in out.steps.iter_mut() {
        match s {
            Step::Broker { pkt: BrokerPkt::Connack { props, .. }, .. } => props.0.retain(|(id, _)| *id != pid::MAXIMUM_PACKET_SIZE),
            // the twin is the run without any size limit: nobody's, so that the encoded length
            // of every request can be read off its wire
            Step::Start { connect, .. } | Step::Reconnect { connect, .. } => connect.maximum_packet_size = None,
            _ => {}
        }
    }
    out
}

// ---------------------------------------------------------------------------------------
// C11 — identifiers

/// Short, diverse runs that start next to the 65535 -> wrap of the packet identifier counter.
pub fn ids_near_wrap(rng: &mut Rng) -> Case {
    let mut cfg = GenCfg::conformant(rng);
    cfg.w_ops = [0, 3, 3, 2, 2, 0];
    cfg.max_ops = rng.urange(4, 40);
    cfg.steps = rng.urange(20, 140);
    cfg.handles = rng.urange(1, 4);
    cfg.receive_max = None;
    cfg.all_reasons = rng.coin();
    cfg.ack_eagerness = rng.range(1, 8) as u32;
    let back = rng.range(0, 30) as u16;
    cfg.preset_ids = Some((65_535 - back, rng.range(1, 100) as u32));
    let mut g = Gen::new(cfg, rng);
    g.preamble();
    for _ in 0..g.cfg.steps {
        g.action();
    }
    if g.rng.coin() {
        g.drain();
    } else {
        g.flush();
    }
    finish_case(g, "ids/near-wrap")
}

/// One long history (macro step) that crosses the wrap for real.
pub fn ids_long(rng: &mut Rng, ops: u32) -> Case {
    let clones = rng.urange(1, 4);
    let preset_ids = std::env::var("POSIM_PRESET").ok().and_then(|s| s.parse::<u16>().ok()).map(|p| (p, 1u32));
    let config = Config { handles: clones, preset_ids, ..Config::default() };
    let connect = ConnectSpec { client_id: Some("sim".into()), ..Default::default() };
    let steps = vec![
        Step::Start { connect, auths: vec![] },
        Step::Settle { seed: 0 },
        Step::Broker { pkt: BrokerPkt::Connack { session_present: false, reason: 0, props: Props::new() }, chunks: Chunks::Whole, hold: false },
        Step::Settle { seed: 1 },
        Step::IdHistory { seed: rng.next_u64(), ops, clones, max_outstanding: *rng.pick(&[0usize, 1, 3, 10, 50]), pin: rng.coin() },
    ];
    Case { scenario: Scenario { config, steps }, aux: None, profile: "ids/long-history", gen_hash: None, systematic: false }
}

// ---------------------------------------------------------------------------------------
// C17 — session resumption

fn resume_cfg(rng: &mut Rng) -> (GenCfg, u32) {
    let mut cfg = GenCfg::conformant(rng);
    cfg.w_ops = [rng.range(0, 1) as u32, 4, 4, 0, 0, rng.range(0, 1) as u32];
    cfg.max_ops = rng.urange(1, 9);
    cfg.steps = rng.urange(2, 40);
    cfg.receive_max = None;
    cfg.all_reasons = rng.chance(1, 3);
    cfg.drain = false;
    cfg.writer_tweaks = false;
    cfg.handles = rng.urange(1, 2);
    // callers may abandon their futures at any point (the exchange goes on without them)
    cfg.cancels = rng.chance(1, 3);
    // effective session expiry: CONNECT value, possibly overridden by CONNACK
    // also intervals beyond 2^24 s (where a detour through f32 loses whole seconds) and 2^31
    let connect_e = *rng.pick(&[None, Some(0u32), Some(30), Some(3600), Some(100_000), Some(u32::MAX), Some(16_777_217), Some(31_536_000), Some(2_147_483_649), Some(u32::MAX - 1)]);
    let connack_e = if rng.chance(1, 3) { Some(*rng.pick(&[0u32, 60, 7200, u32::MAX, 31_536_001, 1_000_000_007])) } else { None };
    cfg.session_expiry = connect_e;
    cfg.connack_session_expiry = connack_e;
    let effective = connack_e.or(connect_e).unwrap_or(0);
    (cfg, effective)
}

fn elapsed_for(rng: &mut Rng, effective: u32) -> u64 {
    match effective {
        0 | u32::MAX => *rng.pick(&[0u64, 1, 100, 10_000_000_000]),
        e => {
            let e = e as u64;
            // right up to the expiry instant on either side (only equality is unspecified)
            if rng.coin() {
                *rng.pick(&[0u64, 1, e / 2, e.saturating_sub(3), e.saturating_sub(1), e.saturating_sub(2), e.saturating_sub(65)])
            } else {
                *rng.pick(&[e + 3, e * 2, e + 86_400, 5_000_000_000, e + 1, e + 2, e + 65])
            }
        }
    }
}

/// C11 across connections of one Context: requests submitted while no `run()` is serving
/// (between the loss of one connection and the next `connect()`), a session that expired or
/// not, then identifier-consuming requests on the new connection while the queued ones are
/// still unacknowledged.
pub fn resume_ids(rng: &mut Rng) -> Case {
    let (mut cfg, _) = resume_cfg(rng);
    cfg.w_ops = [0, 3, 3, 2, 2, 0];
    cfg.max_ops = rng.urange(1, 5);
    cfg.steps = rng.urange(2, 14);
    cfg.handles = rng.urange(1, 3);
    cfg.cancels = false;
    let expired = rng.coin();
    cfg.session_expiry = Some(if expired { 0 } else { u32::MAX });
    cfg.connack_session_expiry = None;
    match rng.below(3) {
        0 => cfg.preset_ids = Some((rng.range(1, 40) as u16, rng.range(1, 40) as u32)),
        // the counter wraps during the first connection: identifiers from before and after the
        // wrap are outstanding when the session is resumed
        1 => cfg.preset_ids = Some((65_535 - rng.range(0, 6) as u16, rng.range(1, 40) as u32)),
        _ => {}
    }
    let mut g = Gen::new(cfg, rng);
    g.preamble();
    for _ in 0..g.cfg.steps {
        g.action();
    }
    g.push(Step::WriterReady);
    g.push(Step::Deliver { n: usize::MAX });
    g.settle();
    let k = if g.rng.coin() { FaultKind::ReadEof } else { FaultKind::ReadErr };
    g.push(Step::Fault(k));
    g.settle();
    // requests submitted while nobody serves: they take their identifiers now and wait in
    // the queue for the next run()
    for _ in 0..g.rng.urange(0, 3) {
        let id = g.next_op_id();
        let kind = g.rng.weighted(&[0, 3, 3, 2, 2, 0]);
        let spec = g.new_op_spec(kind, id);
        let handle = g.rng.usize_below(g.cfg.handles.max(1));
        g.push(Step::Op { id, handle, spec });
        g.push(Step::Poll(TaskRef::Op(id)));
    }
    let connect = g.connect_spec();
    let elapsed = *g.rng.pick(&[0u64, 7, 100_000]);
    g.push(Step::Reconnect { elapsed, connect, auths: vec![] });
    g.settle();
    if expired {
        for (op, _) in g.ack_candidates() {
            g.mark_final(op);
        }
    }
    let props = g.connack_props();
    g.broker(BrokerPkt::Connack { session_present: !expired, reason: 0, props });
    g.push(Step::Deliver { n: usize::MAX });
    g.settle();
    // new requests first (nothing acknowledged yet), then ordinary traffic
    for _ in 0..g.rng.urange(1, 8) {
        let id = g.next_op_id();
        let kind = g.rng.weighted(&[0, 3, 3, 2, 2, 0]);
        let spec = g.new_op_spec(kind, id);
        let handle = g.rng.usize_below(g.cfg.handles.max(1));
        g.push(Step::Op { id, handle, spec });
        g.settle();
    }
    g.cfg.steps = g.rng.urange(0, 12);
    for _ in 0..g.cfg.steps {
        g.action();
    }
    g.drain();
    finish_case(g, "resume/identifiers")
}

/// C10 across a resumed session: a small Receive Maximum, exchanges in flight when the
/// connection is lost, resumption (session mostly unexpired), more traffic, then everything is
/// acknowledged and the quota probe measures the free slots on the new connection.
pub fn resume_quota(rng: &mut Rng) -> Case {
    let (mut cfg, _) = resume_cfg(rng);
    let r = rng.range(1, 5) as u16;
    cfg.receive_max = Some(r);
    cfg.w_ops = [0, 5, 5, 0, 0, 0];
    cfg.max_ops = rng.urange(1, 6);
    cfg.all_reasons = rng.coin();
    let expired = rng.chance(1, 5);
    cfg.session_expiry = Some(if expired { 0 } else { u32::MAX });
    cfg.connack_session_expiry = None;
    let mut g = Gen::new(cfg, rng);
    g.preamble();
    for _ in 0..g.cfg.steps.min(20) {
        g.action();
    }
    g.push(Step::WriterReady);
    g.push(Step::Deliver { n: usize::MAX });
    g.settle();
    let mut between: Option<usize> = None;
    if g.rng.chance(1, 3) {
        // lose the connection while a QoS 2 publish is *between its phases*: the context has
        // processed the PUBREC, the caller has not yet been polled to submit the PUBREL
        let recs: Vec<(usize, AckKind)> = g.ack_candidates().into_iter().filter(|(_, k)| *k == AckKind::Pubrec).collect();
        if !recs.is_empty() {
            let (op, kind) = recs[g.rng.usize_below(recs.len())];
            g.send_ack(op, kind);
            g.push(Step::Poll(TaskRef::Ctx));
            between = Some(op);
        }
    }
    let k = if g.rng.coin() { FaultKind::ReadEof } else { FaultKind::ReadErr };
    g.push(Step::Fault(k));
    if let (Some(op), true, true) = (between, expired, g.rng.coin()) {
        // its caller gives up before ever submitting the PUBREL; with the session expired
        // nothing of the exchange may linger (in particular no quota slot)
        g.push(Step::Poll(TaskRef::Ctx));
        g.push(Step::CancelOp(op));
        g.mark_final(op);
    }
    g.settle();
    let connect = g.connect_spec();
    let elapsed = *g.rng.pick(&[0u64, 5, 100_000]);
    g.push(Step::Reconnect { elapsed, connect, auths: vec![] });
    g.settle();
    if expired {
        // a conformant server has discarded the session: it never acknowledges what was sent in
        // it (an exchange continuing with a first PUBREL is answered like any PUBREL)
        for (op, _) in g.ack_candidates() {
            g.mark_final(op);
        }
    }
    // the new connection may announce a larger Receive Maximum, never a smaller one (a broker
    // that lowers it below what is already in flight makes the property unsatisfiable)
    // (one run in six does lower it: nothing is judged about the quota then - see the oracle -
    // but the client must neither panic nor lose a wake-up over it)
    let r2 = if g.rng.chance(1, 6) { (r / 2).max(1) } else { r + g.rng.range(0, 2) as u16 };
    g.cfg.receive_max = Some(r2);
    let props = g.connack_props();
    g.broker(BrokerPkt::Connack { session_present: !expired, reason: 0, props });
    g.push(Step::Deliver { n: usize::MAX });
    g.settle();
    g.cfg.steps = g.rng.urange(0, 25);
    for _ in 0..g.cfg.steps {
        g.action();
    }
    g.drain();
    g.quota_probe(r2 as usize);
    finish_case(g, "resume/quota")
}

pub fn resume(rng: &mut Rng) -> Case {
    let (cfg, effective) = resume_cfg(rng);
    let mut g = Gen::new(cfg, rng);
    g.preamble();
    for _ in 0..g.cfg.steps {
        g.action();
    }
    // everything the broker sent so far arrives
    g.push(Step::WriterReady);
    g.push(Step::Deliver { n: usize::MAX });
    g.settle();
    // optionally one more acknowledgement that is cut in the middle (lost)
    if g.rng.chance(1, 3) {
        let acks = g.ack_candidates();
        if !acks.is_empty() {
            let (op, kind) = acks[g.rng.usize_below(acks.len())];
            let before = g.steps.len();
            g.send_ack(op, kind);
            // re-shape the step just pushed: first 1-3 bytes delivered, rest held and lost
            if let Some(Step::Broker { chunks, hold, .. }) = g.steps.get_mut(before) {
                let _ = (chunks, hold);
            }
            g.rollback_stage(op, kind);
        }
    }
    if g.rng.chance(1, 5) {
        // the connection is lost while a QoS 2 publish is *between its phases*: the context has
        // processed the PUBREC, the caller has not yet been polled to submit the PUBREL (it
        // does so while no connection is being served)
        let recs: Vec<(usize, AckKind)> = g.ack_candidates().into_iter().filter(|(_, k)| *k == AckKind::Pubrec).collect();
        if !recs.is_empty() {
            let (op, kind) = recs[g.rng.usize_below(recs.len())];
            g.send_ack(op, kind);
            g.push(Step::Poll(TaskRef::Ctx));
        }
    }
    let cut = g.rng.below(12);
    if cut >= 10 {
        // the connection is ended by the user's own disconnect() (no Session Expiry override):
        // the session outlives it like any other end of the connection
        let id = g.next_op_id();
        let handle = g.rng.usize_below(g.cfg.handles.max(1));
        g.push(Step::Op { id, handle, spec: OpSpec::Disconnect(DisconnectSpec::default()) });
    } else if cut < 8 {
        let k = if g.rng.coin() { FaultKind::ReadEof } else { FaultKind::ReadErr };
        g.push(Step::Fault(k));
    } else {
        let after = g.rng.urange(0, 10);
        g.push(Step::Fault(FaultKind::WriteErr { after }));
        let id = g.next_op_id();
        g.push(Step::Op { id, handle: 0, spec: OpSpec::Ping });
        let id = g.next_op_id();
        g.push(Step::Op { id, handle: 0, spec: OpSpec::Ping });
    }
    g.settle();
    let elapsed = elapsed_for(g.rng, effective);
    if g.rng.chance(1, 4) {
        let secs = g.rng.range(1, 50);
        g.push(Step::AdvanceClock(secs));
    }
    let mut connect = g.connect_spec();
    // one reconnect in six goes through an extended authentication exchange, so that the
    // CONNACK of the resumed connection is received by authorize(), not by connect()
    let rounds = if g.rng.chance(1, 6) { g.rng.urange(1, 2) } else { 0 };
    let mut auths = vec![];
    if rounds > 0 {
        connect.auth_method = Some("SIM".into());
        connect.auth_data = Some(vec![0]);
        auths = (0..rounds).map(|i| AuthSpec { reason: Some(0x18), method: Some("SIM".into()), data: Some(vec![i as u8]), user: vec![] }).collect();
    }
    g.push(Step::Reconnect { elapsed, connect, auths });
    g.settle();
    for i in 0..rounds {
        let props = Props::new().with(pid::AUTH_METHOD, PropVal::Str("SIM".into())).with(pid::AUTH_DATA, PropVal::Bin(vec![100 + i as u8]));
        g.broker(BrokerPkt::Auth { reason: 0x18, props, form: Form::Full });
        g.push(Step::Deliver { n: usize::MAX });
        g.settle();
    }
    if g.rng.chance(1, 6) {
        // the server announces a small Receive Maximum on the resumed connection, possibly below
        // the number of exchanges the session has in flight: everything unfinished is re-sent
        // all the same
        g.cfg.receive_max = Some(g.rng.range(1, 3) as u16);
    }
    let props = g.connack_props();
    let session_present = g.rng.coin();
    g.broker(BrokerPkt::Connack { session_present, reason: 0, props });
    g.push(Step::Deliver { n: usize::MAX });
    g.settle();
    // the new connection: acknowledgements for what was re-sent, some new traffic
    g.cfg.steps = g.rng.urange(0, 25);
    for _ in 0..g.cfg.steps {
        g.action();
    }
    if g.rng.chance(1, 3) {
        // the resumed connection is lost as well (possibly before anything was acknowledged)
        g.push(Step::WriterReady);
        g.push(Step::Deliver { n: usize::MAX });
        g.settle();
        let k = if g.rng.coin() { FaultKind::ReadEof } else { FaultKind::ReadErr };
        g.push(Step::Fault(k));
        g.settle();
        let elapsed = elapsed_for(g.rng, effective);
        let connect = g.connect_spec();
        g.push(Step::Reconnect { elapsed, connect, auths: vec![] });
        g.settle();
        let props = g.connack_props();
        g.broker(BrokerPkt::Connack { session_present: true, reason: 0, props });
        g.push(Step::Deliver { n: usize::MAX });
        g.settle();
        g.cfg.steps = g.rng.urange(0, 15);
        for _ in 0..g.cfg.steps {
            g.action();
        }
    }
    g.drain();
    finish_case(g, "resume")
}

/// Crash-point enumeration: the connection of a seeded publish history is cut after every
/// prefix, for sessions that must survive and sessions that must not.
pub fn systematic_resume(thorough: bool, seed: u64) -> Vec<Case> {
    let mut cases = Vec::new();
    let bases = if thorough { 60 } else { 10 };
    for b in 0..bases {
        let mut rng = Rng::derive(seed, 0xC17, b);
        let (mut cfg, effective) = resume_cfg(&mut rng);
        cfg.steps = rng.urange(6, 26);
        cfg.read_style = ReadStyle::Whole;
        cfg.hold_pct = 0;
        let connect;
        let connack_props;
        let base: Vec<Step> = {
            let mut g = Gen::new(cfg, &mut rng);
            g.preamble();
            for _ in 0..g.cfg.steps {
                g.action();
            }
            connect = g.connect_spec();
            connack_props = g.connack_props();
            let (sc, w) = g.finish();
            drop(w);
            sc.steps
        };
        let _ = poster::verif::take_probes();
        let config = Config { handles: 2, ..Config::default() };
        for k in 4..=base.len() {
            for elapsed in [elapsed_for(&mut rng, effective), elapsed_for(&mut rng, effective)] {
                let mut steps: Vec<Step> = base[..k].to_vec();
                steps.push(Step::WriterReady);
                steps.push(Step::Deliver { n: usize::MAX });
                steps.push(Step::Settle { seed: 11 });
                steps.push(Step::Fault(if (k + elapsed as usize) % 2 == 0 { FaultKind::ReadEof } else { FaultKind::ReadErr }));
                steps.push(Step::Settle { seed: 12 });
                steps.push(Step::Reconnect { elapsed, connect: connect.clone(), auths: vec![] });
                steps.push(Step::Settle { seed: 13 });
                steps.push(Step::Broker { pkt: BrokerPkt::Connack { session_present: true, reason: 0, props: connack_props.clone() }, chunks: Chunks::Whole, hold: false });
                steps.push(Step::Settle { seed: 14 });
                cases.push(Case { scenario: Scenario { config: config.clone(), steps }, aux: None, profile: "resume/cut-after-every-prefix", gen_hash: None, systematic: true });
            }
        }
    }
    cases
}

// ---------------------------------------------------------------------------------------
// Systematic families shared by several properties: enumerate a *parameter* of seeded base
// scenarios (acknowledgement permutation, cut / drop / cancel / spurious-poll position).

fn sys(config: &Config, steps: Vec<Step>, profile: &'static str) -> Case {
    Case { scenario: Scenario { config: config.clone(), steps }, aux: None, profile, gen_hash: None, systematic: true }
}

/// Seeded base histories (recorded step lists) of a given generator configuration.
fn base_histories(seed: u64, lane: u64, n: usize, mut tune: impl FnMut(&mut GenCfg, &mut Rng)) -> Vec<(Config, Vec<Step>)> {
    let mut out = Vec::new();
    for b in 0..n {
        let mut rng = Rng::derive(seed, lane, b as u64);
        let mut cfg = GenCfg::conformant(&mut rng);
        tune(&mut cfg, &mut rng);
        let mut g = Gen::new(cfg, &mut rng);
        g.preamble();
        for _ in 0..g.cfg.steps {
            g.action();
        }
        let config = g.config.clone();
        let (sc, w) = g.finish();
        drop(w);
        let _ = poster::verif::take_probes();
        out.push((config, sc.steps));
    }
    out
}

fn permutations(n: usize) -> Vec<Vec<usize>> {
    fn rec(cur: &mut Vec<usize>, used: &mut Vec<bool>, n: usize, out: &mut Vec<Vec<usize>>) {
        if cur.len() == n {
            out.push(cur.clone());
            return;
        }
        for i in 0..n {
            if !used[i] {
                used[i] = true;
                cur.push(i);
                rec(cur, used, n, out);
                cur.pop();
                used[i] = false;
            }
        }
    }
    let mut out = Vec::new();
    rec(&mut Vec::new(), &mut vec![false; n], n, &mut out);
    out
}

/// C05/C06: every acknowledgement order for k <= 5 simultaneously outstanding operations of
/// several kind mixes, under both fixed select policies, acknowledgements with unique content.
pub fn systematic_ack_permutations(thorough: bool) -> Vec<Case> {
    let mut cases = Vec::new();
    let connect = ConnectSpec { client_id: Some("sim".into()), ..Default::default() };
    // kinds: 1 publish QoS1, 2 publish QoS2, 3 subscribe, 4 unsubscribe, 5 ping
    let mixes: Vec<Vec<usize>> = if thorough {
        vec![vec![1, 1, 1, 1, 1], vec![1, 2, 3, 4, 5], vec![2, 2, 2, 1], vec![5, 5, 5, 3], vec![3, 4, 3, 4, 1], vec![2, 5, 2, 5, 1], vec![1, 2], vec![5, 5, 5, 5, 5]]
    } else {
        vec![vec![1, 2, 3, 4], vec![5, 5, 5, 1], vec![2, 2, 1], vec![3, 4, 5, 2]]
    };
    for mix in &mixes {
        for select in [SelectPolicy::PacketFirst, SelectPolicy::MessageFirst] {
            let config = Config { select, handles: 2, ..Config::default() };
            let mut prefix = vec![
                Step::Start { connect: connect.clone(), auths: vec![] },
                Step::Settle { seed: 0 },
                Step::Broker { pkt: BrokerPkt::Connack { session_present: false, reason: 0, props: Props::new() }, chunks: Chunks::Whole, hold: false },
                Step::Settle { seed: 1 },
            ];
            for (i, k) in mix.iter().enumerate() {
                let spec = match k {
                    1 | 2 => OpSpec::Publish(PublishSpec { qos: Some(*k as u8), topic: Some(format!("t/{i}")), payload: Some(vec![i as u8]), ..Default::default() }),
                    3 => OpSpec::Subscribe(SubscribeSpec { filters: vec![(format!("f/{i}/a"), SubOptSpec::default())], user: vec![] }),
                    4 => OpSpec::Unsubscribe(UnsubscribeSpec { filters: vec![format!("u/{i}")], user: vec![] }),
                    _ => OpSpec::Ping,
                };
                prefix.push(Step::Op { id: i, handle: i % 2, spec });
                prefix.push(Step::Settle { seed: 10 + i as u64 });
            }
            for perm in permutations(mix.len()) {
                let mut steps = prefix.clone();
                // first acknowledgements in this order; QoS 2 gets PUBREC now and PUBCOMP in a second round
                let ack = |i: usize, second: bool| -> Option<Step> {
                    let props = Props::new().with(pid::REASON_STRING, PropVal::Str(format!("rs{i}{}", if second { "b" } else { "" })));
                    let (kind, reasons) = match (mix[i], second) {
                        (1, false) => (AckKind::Puback, vec![if i % 2 == 0 { 0 } else { 0x10 }]),
                        (2, false) => (AckKind::Pubrec, vec![0]),
                        (2, true) => (AckKind::Pubcomp, vec![if i % 2 == 0 { 0 } else { 0x92 }]),
                        (3, false) => (AckKind::Suback, vec![1]),
                        (4, false) => (AckKind::Unsuback, vec![0x11]),
                        (5, false) => return Some(Step::Broker { pkt: BrokerPkt::Pingresp, chunks: Chunks::Whole, hold: false }),
                        _ => return None,
                    };
                    Some(Step::Broker { pkt: BrokerPkt::Ack { op: i, kind, reasons, props, form: Form::Full }, chunks: Chunks::Whole, hold: false })
                };
                for (n, &i) in perm.iter().enumerate() {
                    if let Some(s) = ack(i, false) {
                        steps.push(s);
                    }
                    // sometimes let the client run between acknowledgements, sometimes batch them
                    if (n + perm[0]) % 2 == 0 {
                        steps.push(Step::Settle { seed: 100 + n as u64 });
                    }
                }
                steps.push(Step::Settle { seed: 200 });
                for &i in perm.iter().rev() {
                    if let Some(s) = ack(i, true) {
                        steps.push(s);
                    }
                }
                steps.push(Step::Settle { seed: 201 });
                cases.push(sys(&config, steps, "conformant-ops/ack-permutations"));
            }
        }
    }
    cases
}

fn subscribe_ids(steps: &[Step]) -> Vec<usize> {
    steps.iter().filter_map(|s| if let Step::Op { id, spec: OpSpec::Subscribe(_), .. } = s { Some(*id) } else { None }).collect()
}

fn max_op_id(steps: &[Step]) -> usize {
    steps.iter().filter_map(|s| if let Step::Op { id, .. } = s { Some(*id) } else { None }).max().map(|m| m + 1).unwrap_or(0)
}

/// C14: the context is dropped after every prefix of seeded base histories.
pub fn systematic_teardown(thorough: bool, seed: u64) -> Vec<Case> {
    let mut cases = Vec::new();
    let bases = base_histories(seed, 0xC14, if thorough { 80 } else { 14 }, |c, r| {
        c.steps = r.urange(8, 34);
        c.inbound = r.coin();
        if c.inbound {
            c.w_ops[3] += 3;
        }
        c.drain = false;
    });
    for (config, base) in bases {
        for k in 4..=base.len() {
            let mut steps = base[..k].to_vec();
            steps.push(Step::DropContext);
            if k % 2 == 0 {
                steps.push(Step::Settle { seed: 1 });
            }
            for s in subscribe_ids(&steps) {
                steps.push(Step::OpenStream(s));
            }
            let next = max_op_id(&steps);
            steps.push(Step::Op { id: next, handle: 0, spec: OpSpec::Ping });
            steps.push(Step::Op { id: next + 1, handle: 0, spec: OpSpec::Publish(PublishSpec { qos: Some((k % 3) as u8), topic: Some(format!("t/{}", next + 1)), ..Default::default() }) });
            steps.push(Step::Settle { seed: 2 });
            cases.push(sys(&config, steps, "teardown/drop-after-every-prefix"));
        }
    }
    cases
}

/// C15: every operation of seeded base histories is cancelled at every later position.
pub fn systematic_cancel(thorough: bool, seed: u64) -> Vec<Case> {
    let mut cases = Vec::new();
    let bases = base_histories(seed, 0xC15, if thorough { 60 } else { 10 }, |c, r| {
        c.steps = r.urange(10, 30);
        c.max_ops = r.urange(2, 6);
        c.drain = false;
        c.all_reasons = true;
    });
    for (config, base) in bases {
        let ops: Vec<(usize, usize)> = base.iter().enumerate().filter_map(|(i, s)| if let Step::Op { id, .. } = s { Some((*id, i)) } else { None }).collect();
        for (id, at) in ops {
            for k in (at + 1)..=base.len() {
                let mut steps = base[..k].to_vec();
                steps.push(Step::CancelOp(id));
                steps.extend_from_slice(&base[k..]);
                steps.push(Step::WriterReady);
                steps.push(Step::Deliver { n: usize::MAX });
                steps.push(Step::Settle { seed: 3 });
                cases.push(sys(&config, steps, "cancel/every-op-at-every-position"));
            }
        }
    }
    cases
}

/// C13: every terminating cause after every prefix of seeded base histories.
pub fn systematic_termination(thorough: bool, seed: u64) -> Vec<Case> {
    let mut cases = Vec::new();
    let bases = base_histories(seed, 0xC13, if thorough { 40 } else { 8 }, |c, r| {
        c.steps = r.urange(6, 26);
        c.drain = false;
        c.writer_tweaks = false;
    });
    for (config, base) in bases {
        for k in 4..=base.len() {
            for cause in 0..7 {
                let mut steps = base[..k].to_vec();
                let next = max_op_id(&steps);
                match cause {
                    0 => steps.push(Step::Op { id: next, handle: 0, spec: OpSpec::Disconnect(DisconnectSpec::default()) }),
                    1 => steps.push(Step::Broker { pkt: BrokerPkt::Disconnect { reason: 0, props: Props::new(), form: Form::Shortest }, chunks: Chunks::Whole, hold: false }),
                    2 => steps.push(Step::Broker {
                        pkt: BrokerPkt::Disconnect { reason: 0x8b, props: Props::new().with(pid::REASON_STRING, PropVal::Str("bye".into())), form: Form::Full },
                        chunks: Chunks::Each(2),
                        hold: false,
                    }),
                    3 => steps.push(Step::Fault(FaultKind::ReadEof)),
                    4 => steps.push(Step::Fault(FaultKind::ReadErr)),
                    5 => {
                        let ids: Vec<usize> = steps.iter().filter_map(|s| if let Step::Op { id, .. } = s { Some(*id) } else { None }).collect();
                        for id in ids {
                            steps.push(Step::CancelOp(id));
                        }
                        for h in 0..config.handles.max(1) {
                            steps.push(Step::DropHandle(h));
                        }
                    }
                    _ => {
                        steps.push(Step::Fault(FaultKind::WriteErr { after: k % 5 }));
                        steps.push(Step::Op { id: next, handle: 0, spec: OpSpec::Ping });
                        steps.push(Step::Op { id: next + 1, handle: 0, spec: OpSpec::Ping });
                        steps.push(Step::Op { id: next + 2, handle: 0, spec: OpSpec::Ping });
                    }
                }
                steps.push(Step::WriterReady);
                steps.push(Step::Deliver { n: usize::MAX });
                steps.push(Step::Settle { seed: 4 });
                cases.push(sys(&config, steps, "termination/cause-after-every-prefix"));
            }
        }
    }
    cases
}

/// C16: a spurious poll of each idle task inserted at every position of seeded base
/// histories (the judge compares against the wake-only execution of the base).
pub fn systematic_spurious(thorough: bool, seed: u64) -> Vec<Case> {
    let mut cases = Vec::new();
    let bases = base_histories(seed, 0xC16, if thorough { 60 } else { 10 }, |c, r| {
        c.steps = r.urange(8, 30);
        c.inbound = r.coin();
        if c.inbound {
            c.w_ops[3] += 2;
        }
        c.gates = false;
        c.read_style = *r.pick(&[ReadStyle::Whole, ReadStyle::Bytes1, ReadStyle::Small]);
    });
    for (config, mut base) in bases {
        base.push(Step::WriterReady);
        base.push(Step::Deliver { n: usize::MAX });
        base.push(Step::Settle { seed: 5 });
        for k in 3..base.len() {
            let mut sp = base.clone();
            for pick in (0..3).rev() {
                sp.insert(k, Step::Spurious { pick });
            }
            let mut c = sys(&config, base.clone(), "wake-base/spurious-poll-at-every-position");
            c.aux = Some(Scenario { config: config.clone(), steps: sp });
            cases.push(c);
        }
    }
    cases
}

/// Bounded exhaustive exploration of poll orders (C05/C06): for small fixed scenarios every
/// order in which the woken tasks can be polled after each external event is enumerated
/// (stateless search: each path is re-executed from scratch and recorded as explicit
/// `RunOne{pick}` steps). Returns the cases and whether the budget cut the enumeration short.
pub fn systematic_interleavings(thorough: bool) -> (Vec<Case>, bool) {
    let budget_per_base = if thorough { 60_000 } else { 2_500 };
    let connect = ConnectSpec { client_id: Some("sim".into()), ..Default::default() };
    let p = |id: usize, qos: u8| Step::Op {
        id,
        handle: 0,
        spec: OpSpec::Publish(PublishSpec { qos: Some(qos), topic: Some(format!("t/{id}")), payload: Some(vec![id as u8]), ..Default::default() }),
    };
    let ack = |op: usize, kind: AckKind, reason: u8| Step::Broker {
        pkt: BrokerPkt::Ack { op, kind, reasons: vec![reason], props: Props::new().with(pid::REASON_STRING, PropVal::Str(format!("r{op}"))), form: Form::Full },
        chunks: Chunks::Whole,
        hold: false,
    };
    let pingresp = || Step::Broker { pkt: BrokerPkt::Pingresp, chunks: Chunks::Whole, hold: false };
    let ping = |id: usize| Step::Op { id, handle: 0, spec: OpSpec::Ping };
    let sub = |id: usize| Step::Op { id, handle: 0, spec: OpSpec::Subscribe(SubscribeSpec { filters: vec![(format!("f/{id}/a"), SubOptSpec::default())], user: vec![] }) };
    // `None` marks a point where every poll order is explored until quiescence
    let bases: Vec<Vec<Option<Step>>> = vec![
        vec![Some(p(0, 2)), Some(ping(1)), None, Some(ack(0, AckKind::Pubrec, 0)), Some(pingresp()), None, Some(ack(0, AckKind::Pubcomp, 0)), None],
        vec![Some(sub(0)), Some(p(1, 1)), Some(p(2, 1)), None, Some(ack(2, AckKind::Puback, 0x10)), Some(ack(1, AckKind::Puback, 0x80)), Some(ack(0, AckKind::Suback, 1)), None],
        vec![Some(ping(0)), Some(ping(1)), None, Some(pingresp()), None, Some(pingresp()), None],
        vec![Some(p(0, 2)), Some(p(1, 2)), None, Some(ack(1, AckKind::Pubrec, 0)), Some(ack(0, AckKind::Pubrec, 0x97)), None, Some(ack(1, AckKind::Pubcomp, 0x92)), None],
    ];
    let mut cases = Vec::new();
    let mut capped = false;
    for select in [SelectPolicy::PacketFirst, SelectPolicy::MessageFirst] {
        let config = Config { select, handles: 1, ..Config::default() };
        for base in &bases {
            let mut choices: Vec<usize> = Vec::new();
            let mut produced = 0usize;
            loop {
                // execute one path
                let mut w = crate::world::World::new(config.clone());
                let mut steps = vec![
                    Step::Start { connect: connect.clone(), auths: vec![] },
                    Step::Settle { seed: 0 },
                    Step::Broker { pkt: BrokerPkt::Connack { session_present: false, reason: 0, props: Props::new() }, chunks: Chunks::Whole, hold: false },
                    Step::Settle { seed: 1 },
                ];
                for s in &steps {
                    w.exec(s);
                }
                let mut counts: Vec<usize> = Vec::new();
                for item in base {
                    match item {
                        Some(s) => {
                            w.exec(s);
                            steps.push(s.clone());
                        }
                        None => loop {
                            let woken = w.woken_tasks();
                            if woken.is_empty() || counts.len() > 60 {
                                break;
                            }
                            let c = choices.get(counts.len()).copied().unwrap_or(0).min(woken.len() - 1);
                            counts.push(woken.len());
                            let s = Step::RunOne { pick: c };
                            w.exec(&s);
                            steps.push(s);
                        },
                    }
                }
                drop(w);
                let _ = poster::verif::take_probes();
                cases.push(sys(&config, steps, "conformant-ops/all-poll-orders"));
                produced += 1;
                // next path (odometer over the choice points actually met)
                let mut path: Vec<usize> = (0..counts.len()).map(|i| choices.get(i).copied().unwrap_or(0).min(counts[i] - 1)).collect();
                let mut i = path.len();
                let mut advanced = false;
                while i > 0 {
                    i -= 1;
                    if path[i] + 1 < counts[i] {
                        path[i] += 1;
                        path.truncate(i + 1);
                        advanced = true;
                        break;
                    }
                }
                if !advanced {
                    break;
                }
                if produced >= budget_per_base {
                    capped = true;
                    break;
                }
                choices = path;
            }
        }
    }
    (cases, capped)
}

/// C09 across a connection loss: inbound QoS 2 messages answered with PUBREC (or whose PUBREC
/// could not be written) are re-delivered by the broker after the session was resumed.
pub fn qos2_resume(rng: &mut Rng) -> Case {
    let mut cfg = GenCfg::inbound(rng);
    cfg.redeliver = true;
    cfg.inbound_unknown_ids = false;
    cfg.inbound_absent_ids = false;
    cfg.inbound_multi_ids = false;
    cfg.drop_streams = false;
    cfg.writer_tweaks = false;
    // one run in three: the session expires while offline; identifiers received and not
    // released in it mean nothing to the new session
    let expired = rng.chance(1, 3);
    cfg.session_expiry = Some(if expired { *rng.pick(&[0u32, 30]) } else { u32::MAX });
    cfg.w_ops = [0, 1, 0, 3, 0, 0];
    cfg.steps = rng.urange(6, 30);
    let mut g = Gen::new(cfg, rng);
    g.preamble();
    // one subscription with an open stream for sure
    let id = g.next_op_id();
    let spec = g.new_op_spec(3, id);
    g.push(Step::Op { id, handle: 0, spec });
    g.settle();
    g.send_ack(id, AckKind::Suback);
    g.push(Step::Deliver { n: usize::MAX });
    g.settle();
    g.push(Step::OpenStream(id));
    for _ in 0..g.cfg.steps {
        g.action();
    }
    g.push(Step::WriterReady);
    g.push(Step::Deliver { n: usize::MAX });
    g.settle();
    if g.rng.coin() {
        // the connection dies while the client writes the PUBREC of one more message
        let after = g.rng.urange(0, 3);
        g.push(Step::Fault(FaultKind::WriteErr { after }));
        g.force_whole = true;
        g.inbound_publish();
        g.force_whole = false;
    } else {
        let k = if g.rng.coin() { FaultKind::ReadEof } else { FaultKind::ReadErr };
        g.push(Step::Fault(k));
    }
    g.settle();
    let connect = g.connect_spec();
    let elapsed = if expired { 1000 } else { g.rng.range(0, 1000) };
    g.push(Step::Reconnect { elapsed, connect, auths: vec![] });
    g.settle();
    let props = g.connack_props();
    g.broker(BrokerPkt::Connack { session_present: !expired, reason: 0, props });
    g.push(Step::Deliver { n: usize::MAX });
    g.settle();
    if expired {
        // the application subscribes again; the broker, which has forgotten the old session,
        // uses the identifiers it had not released there for new messages
        for (op, _) in g.ack_candidates() {
            g.mark_final(op);
        }
        let stale = g.unreleased_inbound();
        let sub = g.next_op_id();
        let spec = g.new_op_spec(3, sub);
        g.push(Step::Op { id: sub, handle: 0, spec });
        g.settle();
        if g.ack_candidates().contains(&(sub, AckKind::Suback)) {
            g.send_ack(sub, AckKind::Suback);
            g.push(Step::Deliver { n: usize::MAX });
            g.settle();
            g.open_stream(sub);
            for j in stale {
                g.inbound_qos2_reusing(sub, j);
                g.push(Step::Deliver { n: usize::MAX });
                g.settle();
            }
        }
        g.drain();
        if g.rng.coin() && g.opened_contains(sub) {
            // a third connection on the same Context, this time without a recorded
            // disconnection: nothing is reset, the subscription made on the second connection
            // is still served
            let k = if g.rng.coin() { FaultKind::ReadEof } else { FaultKind::ReadErr };
            g.push(Step::Fault(k));
            g.settle();
            let connect = g.connect_spec();
            g.push(Step::Reconnect { elapsed: u64::MAX, connect, auths: vec![] });
            g.settle();
            let props = g.connack_props();
            g.broker(BrokerPkt::Connack { session_present: true, reason: 0, props });
            g.push(Step::Deliver { n: usize::MAX });
            g.settle();
            g.inbound_publish_to(sub);
            g.flush();
        }
        return finish_case(g, "inbound/qos2-across-expiry");
    }
    g.cfg.steps = g.rng.urange(3, 25);
    for _ in 0..g.cfg.steps {
        g.action();
    }
    g.drain();
    finish_case(g, "inbound/qos2-across-resume")
}
