//! C01 (everything written is well-formed and carries the caller's options) and
//! C02 (well-formed inbound packets decode to exactly what was sent): option-space /
//! packet-space generators and their oracles. The simulator contributes the end-to-end
//! path and the transport dimension (write fragmentation, read reassembly); the option
//! space is covered by seeded generation against the independent codec.

use crate::analysis::*;
use crate::check::Case;
use crate::gen::*;
use crate::oracle::{self, Violation};
use crate::props::finish_case;
use crate::refcodec::{self as rc, pid, Form, Kind, Packet, PropVal, Props};
use crate::rng::Rng;
use crate::scenario::*;
use crate::spec::*;
use crate::world::*;

const LENS: &[usize] = &[0, 1, 2, 127, 128, 129, 16_383, 16_384, 65_535];

pub fn rand_string(rng: &mut Rng, big_ok: bool) -> String {
    match rng.below(12) {
        0 => String::new(),
        1 => "ü→✓𝄞".into(),
        2 if big_ok => {
            let n = *rng.pick(LENS);
            // multi-byte filler where it divides evenly, ASCII otherwise
            if n % 2 == 0 && rng.coin() {
                "é".repeat(n / 2)
            } else {
                "a".repeat(n)
            }
        }
        3 => "x".repeat(rng.urange(120, 135)),
        4 => "/".into(),
        5 => "a/+/#".into(),
        _ => format!("s{}", rng.below(1000)),
    }
}

pub fn rand_bytes(rng: &mut Rng, big_ok: bool) -> Vec<u8> {
    let n = match rng.below(8) {
        0 => 0,
        1 if big_ok => *rng.pick(LENS),
        2 => rng.urange(120, 135),
        _ => rng.urange(1, 12),
    };
    rng.bytes(n)
}

fn opt<T>(rng: &mut Rng, num: u64, den: u64, f: impl FnOnce(&mut Rng) -> T) -> Option<T> {
    if rng.chance(num, den) {
        Some(f(rng))
    } else {
        None
    }
}

fn rand_user(rng: &mut Rng, big_ok: bool) -> Pairs {
    let n = match rng.below(6) {
        0 | 1 | 2 => 0,
        3 => 1,
        4 => 2,
        _ => rng.urange(3, 6),
    };
    let mut v: Pairs = (0..n).map(|_| (rand_string(rng, big_ok && n == 1), rand_string(rng, false))).collect();
    if n >= 2 && rng.coin() {
        v[1].0 = v[0].0.clone(); // repeated key
    }
    v
}

fn rand_u32(rng: &mut Rng) -> u32 {
    *rng.pick(&[0u32, 1, 127, 128, 65_535, 65_536, u32::MAX - 1, u32::MAX, 3600])
}

fn rand_u16nz(rng: &mut Rng) -> u16 {
    *rng.pick(&[1u16, 2, 127, 128, 255, 256, 65_534, 65_535])
}

pub fn rand_connect(rng: &mut Rng) -> ConnectSpec {
    let big = rng.chance(1, 6);
    let will = opt(rng, 1, 3, |r| WillSpec {
        topic: rand_string(r, big),
        payload: rand_bytes(r, big),
        qos: opt(r, 1, 2, |r| r.below(3) as u8),
        retain: opt(r, 1, 2, |r| r.coin()),
        delay: opt(r, 1, 3, rand_u32),
        payload_format: opt(r, 1, 3, |r| r.coin()),
        message_expiry: opt(r, 1, 3, rand_u32),
        content_type: opt(r, 1, 3, |r| rand_string(r, false)),
        response_topic: opt(r, 1, 3, |r| rand_string(r, false)),
        correlation_data: opt(r, 1, 3, |r| rand_bytes(r, false)),
        user: rand_user(r, false),
    });
    let auth_method = opt(rng, 1, 3, |r| rand_string(r, false));
    // authentication data without a method must be refused: generated deliberately, rarely
    let auth_data = if auth_method.is_some() { opt(rng, 2, 3, |r| rand_bytes(r, false)) } else { opt(rng, 1, 12, |r| rand_bytes(r, false)) };
    ConnectSpec {
        client_id: opt(rng, 3, 4, |r| rand_string(r, big)),
        keep_alive: opt(rng, 1, 2, |r| *r.pick(&[0u16, 1, 60, 65_535])),
        session_expiry: opt(rng, 1, 3, rand_u32),
        receive_maximum: opt(rng, 1, 3, rand_u16nz),
        maximum_packet_size: opt(rng, 1, 3, |r| *r.pick(&[1u32, 2, 128, 65_536, u32::MAX])),
        topic_alias_maximum: opt(rng, 1, 3, |r| *r.pick(&[0u16, 1, 65_535])),
        request_response_information: opt(rng, 1, 3, |r| r.coin()),
        request_problem_information: opt(rng, 1, 3, |r| r.coin()),
        auth_method,
        auth_data,
        user: rand_user(rng, big),
        clean_start: opt(rng, 1, 2, |r| r.coin()),
        will,
        username: opt(rng, 1, 3, |r| rand_string(r, big)),
        password: opt(rng, 1, 3, |r| rand_bytes(r, big)),
    }
}

pub fn rand_auth(rng: &mut Rng) -> AuthSpec {
    match rng.below(8) {
        0 => AuthSpec::default(),
        1 => AuthSpec { reason: Some(0), ..Default::default() },
        _ => AuthSpec {
            reason: opt(rng, 3, 4, |r| *r.pick(&[0u8, 0x18, 0x19])),
            method: opt(rng, 5, 6, |r| rand_string(r, false)),
            data: opt(rng, 5, 6, |r| rand_bytes(r, false)),
            user: rand_user(rng, false),
        },
    }
}

pub fn rand_op(rng: &mut Rng, thorough: bool) -> OpSpec {
    let big = rng.chance(1, 8);
    match rng.below(10) {
        0..=3 => {
            let payload = opt(rng, 4, 5, |r| {
                let n = match r.below(10) {
                    0 => *r.pick(&[100usize, 110, 120, 126, 127, 128]),
                    1 => *r.pick(&[16_300usize, 16_370, 16_383, 16_384]),
                    // 4-byte remaining lengths: the boundary and, more often, values inside the
                    // range (every 7-bit group non-trivial); rare in the quick tier (megabytes per run)
                    2 if thorough || r.chance(1, 150) => match r.below(5) {
                        0 => *r.pick(&[2_097_100usize, 2_097_140, 2_097_152]),
                        1 => *r.pick(&[3_000_000usize, 5_255_225, 0x2A_AAAA, 0x55_5555]),
                        _ => r.urange(2_097_153, 9_000_000),
                    },
                    _ => r.urange(0, 30),
                };
                r.bytes(n)
            });
            OpSpec::Publish(PublishSpec {
                qos: opt(rng, 3, 4, |r| r.below(3) as u8),
                retain: opt(rng, 1, 2, |r| r.coin()),
                topic: opt(rng, 11, 12, |r| rand_string(r, big)),
                payload,
                payload_format: opt(rng, 1, 3, |r| r.coin()),
                topic_alias: opt(rng, 1, 3, rand_u16nz),
                message_expiry: opt(rng, 1, 3, rand_u32),
                correlation_data: opt(rng, 1, 3, |r| rand_bytes(r, big)),
                response_topic: opt(rng, 1, 3, |r| rand_string(r, false)),
                content_type: opt(rng, 1, 3, |r| rand_string(r, false)),
                user: rand_user(rng, big),
            })
        }
        4 | 5 => {
            let n = match rng.below(8) {
                0 => 0,
                1 | 2 | 3 => 1,
                4 | 5 => 2,
                _ => rng.urange(3, 6),
            };
            OpSpec::Subscribe(SubscribeSpec {
                filters: (0..n)
                    .map(|_| {
                        (
                            rand_string(rng, big && n == 1),
                            SubOptSpec {
                                qos: opt(rng, 2, 3, |r| r.below(3) as u8),
                                no_local: opt(rng, 1, 2, |r| r.coin()),
                                retain_as_published: opt(rng, 1, 2, |r| r.coin()),
                                retain_handling: opt(rng, 1, 2, |r| r.below(3) as u8),
                            },
                        )
                    })
                    .collect(),
                user: rand_user(rng, false),
            })
        }
        6 | 7 => {
            let n = match rng.below(6) {
                0 => 0,
                1 | 2 | 3 => 1,
                _ => rng.urange(2, 5),
            };
            OpSpec::Unsubscribe(UnsubscribeSpec { filters: (0..n).map(|_| rand_string(rng, big && n == 1)).collect(), user: rand_user(rng, false) })
        }
        8 => OpSpec::Ping,
        _ => OpSpec::Disconnect(DisconnectSpec {
            reason: opt(rng, 2, 3, |r| *r.pick(rc::reason_codes(Kind::Disconnect))),
            session_expiry: opt(rng, 1, 2, rand_u32),
            reason_string: opt(rng, 1, 2, |r| rand_string(r, big)),
            user: rand_user(rng, false),
        }),
    }
}

pub fn codec_out(rng: &mut Rng, thorough: bool) -> Case {
    let mut cfg = GenCfg::conformant(rng);
    cfg.handles = rng.urange(1, 3);
    // the identifiers the library assigns are part of what is written: start the counters next
    // to the boundaries of their encodings (variable byte integer widths, u16 wrap)
    if rng.chance(1, 3) {
        let sub = *rng.pick(&[1u32, 126, 127, 128, 16_382, 16_383, 16_384, 2_097_150, 2_097_151, 2_097_152, 268_435_440]);
        let pid_ = *rng.pick(&[1u16, 255, 256, 65_530, 65_535]);
        cfg.preset_ids = Some((pid_, sub));
    }
    let mut g = Gen::new(cfg, rng);
    let mut connect = rand_connect(g.rng);
    let with_auth_rounds = connect.auth_method.is_some() && connect.auth_data.is_some() && g.rng.chance(1, 2);
    let auths: Vec<AuthSpec> = if with_auth_rounds { (0..g.rng.urange(1, 3)).map(|_| rand_auth(g.rng)).collect() } else { vec![] };
    if g.rng.chance(1, 4) {
        connect.maximum_packet_size = None;
    }
    // how the transport accepts bytes
    match g.rng.below(4) {
        0 => {}
        1 => g.push(Step::WriterSizes { sizes: vec![1] }),
        _ => {
            let sizes = (0..g.rng.urange(1, 4)).map(|_| g.rng.urange(1, 9)).collect();
            g.push(Step::WriterSizes { sizes });
        }
    }
    g.push(Step::Start { connect, auths: auths.clone() });
    let mut writer_play = |g: &mut Gen| {
        if g.rng.chance(1, 3) {
            let after = g.rng.urange(0, 12);
            g.push(Step::WriterBlock { after });
            g.settle();
            g.push(Step::WriterReady);
        }
        g.settle();
    };
    writer_play(&mut g);
    for _ in 0..auths.len() {
        let props = Props::new().with(pid::AUTH_METHOD, PropVal::Str("m".into())).with(pid::AUTH_DATA, PropVal::Bin(vec![1]));
        g.broker(BrokerPkt::Auth { reason: 0x18, props, form: Form::Full });
        g.push(Step::Deliver { n: usize::MAX });
        writer_play(&mut g);
    }
    g.broker(BrokerPkt::Connack { session_present: false, reason: 0, props: Props::new() });
    g.push(Step::Deliver { n: usize::MAX });
    g.settle();
    let n_ops = g.rng.urange(1, 8);
    let mut disconnected = false;
    for _ in 0..n_ops {
        if disconnected {
            break;
        }
        let id = g.next_op_id();
        let spec = rand_op(g.rng, thorough);
        if matches!(spec, OpSpec::Disconnect(_)) {
            disconnected = true;
        }
        let handle = g.rng.usize_below(g.cfg.handles.max(1));
        let huge = matches!(&spec, OpSpec::Publish(p) if p.payload.as_ref().map(|b| b.len() > 100_000).unwrap_or(false));
        if huge {
            // megabytes go out in large writes (byte-sized writes would cost seconds per run)
            g.push(Step::WriterReady);
            let w = *g.rng.pick(&[65_536usize, 1_000_000, 100_000_000]);
            g.push(Step::WriterSizes { sizes: vec![w] });
        }
        g.push(Step::Op { id, handle, spec });
        if huge {
            g.settle();
            continue;
        }
        match g.rng.below(4) {
            0 => {}
            1 => {
                let pick = g.rng.usize_below(8);
                g.push(Step::RunOne { pick });
            }
            _ => writer_play(&mut g),
        }
        if g.rng.chance(1, 5) {
            let sizes = (0..g.rng.urange(1, 3)).map(|_| g.rng.urange(1, 40)).collect();
            g.push(Step::WriterSizes { sizes });
        }
    }
    g.push(Step::WriterReady);
    g.settle();
    finish_case(g, "codec-out")
}

fn kind_label(p: &Packet) -> &'static str {
    p.kind().name()
}

pub fn c01(a: &Analysis, sc: &Scenario) -> Vec<Violation> {
    let mut out = Vec::new();
    let v = |class: String, message: String| Violation { property: "C01", class, message };
    out.extend(oracle::wire_wellformed(a, "C01"));
    let Some(Step::Start { connect, auths }) = sc.steps.iter().find(|s| matches!(s, Step::Start { .. })) else { return out };
    if a.conns.is_empty() {
        return out;
    }
    let conn = &a.conns[0];
    let complete = !conn.write_blocked_at_end && conn.write_fault_seen.is_none() && conn.wire_error.is_none() && a.panics.is_empty();
    let wire: Vec<&WirePkt> = a.wire.iter().filter(|p| p.conn == 0).collect();
    let mut pos = 0usize;
    // CONNECT
    match connect.expected() {
        None => {
            if let Some(p) = wire.first() {
                out.push(v("C01/not-refused/CONNECT/authentication-data-without-method".into(), format!("wrote {:?}", p.pkt.kind())));
            }
            if !matches!(&conn.connect_returned, Some((_, ConnectOutcome::Err(_)))) && complete {
                out.push(v("C01/not-refused/CONNECT/result".into(), format!("connect() returned {:?}", conn.connect_returned.as_ref().map(|x| &x.1))));
            }
            return out;
        }
        Some(want) => match wire.first() {
            Some(p) => {
                pos = 1;
                if let Err(f) = same_request(&p.pkt, &want) {
                    out.push(v(format!("C01/field-mismatch/CONNECT/{f}"), format!("wire: {}", short(&p.pkt))));
                }
            }
            None => {
                if complete && conn.connect_started.is_some() {
                    out.push(v("C01/count/CONNECT".into(), "no CONNECT on the wire".into()));
                }
                return out;
            }
        },
    }
    // AUTH rounds
    for (i, a_spec) in auths.iter().enumerate() {
        let Some((_, res)) = conn.authorize_returned.get(i) else {
            // authorize() not reached or still pending
            if conn.authorize_returned.len() == i {
                // pending: its packet may be on the wire
                if let (Some(want), Some(p)) = (a_spec.expected(), wire.get(pos)) {
                    if matches!(p.pkt, Packet::Auth(_)) {
                        pos += 1;
                        if let Err(f) = same_request(&p.pkt, &want) {
                            out.push(v(format!("C01/field-mismatch/AUTH/{f}"), format!("wire: {}", short(&p.pkt))));
                        }
                    }
                }
            }
            break;
        };
        match a_spec.expected() {
            None => {
                if !matches!(res, ConnectOutcome::Err(e) if e.variant == "CodecError") {
                    out.push(v("C01/not-refused/AUTH/missing-method-or-data".into(), format!("authorize() returned {:?}", res)));
                }
                if matches!(wire.get(pos).map(|p| &p.pkt), Some(Packet::Auth(_))) {
                    out.push(v("C01/bytes-after-refusal".into(), "AUTH written for a refused request".into()));
                }
                break; // the script stops authorizing after an error
            }
            Some(want) => match wire.get(pos) {
                Some(p) if matches!(p.pkt, Packet::Auth(_)) => {
                    pos += 1;
                    if let Err(f) = same_request(&p.pkt, &want) {
                        out.push(v(format!("C01/field-mismatch/AUTH/{f}"), format!("wire: {}", short(&p.pkt))));
                    }
                }
                other => {
                    out.push(v("C01/count/AUTH".into(), format!("expected AUTH at position {pos}, found {:?}", other.map(|p| p.pkt.kind()))));
                    return out;
                }
            },
        }
    }
    if conn.run_started.is_none() {
        return out;
    }
    // requests in submission order (= order of first polls)
    let mut ops: Vec<&OpView> = a.ops.values().filter(|o| o.first_poll.is_some()).collect();
    ops.sort_by_key(|o| o.first_poll.unwrap());
    let requests: Vec<&&WirePkt> = wire[pos..].iter().filter(|p| !matches!(p.pkt.kind(), Kind::Puback | Kind::Pubrec | Kind::Pubcomp | Kind::Pubrel)).collect();
    let mut ri = 0usize;
    let mut after_disconnect = false;
    for op in ops {
        let kind = op.spec.kind_name();
        match op.spec.expected() {
            None => {
                let missing = match &op.spec {
                    OpSpec::Publish(_) => "no-topic",
                    _ => "no-topic-filter",
                };
                match op.outcome() {
                    Some(OpOutcome::Err(e)) if e.variant == "CodecError" && op.first_poll_ready => {}
                    other => out.push(v(format!("C01/not-refused/{kind}/{missing}"), format!("op {} returned {:?}", op.idx, other))),
                }
            }
            Some(want) => {
                if after_disconnect {
                    continue; // nothing is written after the user's DISCONNECT (C13)
                }
                match requests.get(ri) {
                    Some(p) => {
                        ri += 1;
                        if let Err(f) = same_request(&p.pkt, &want) {
                            if f.starts_with("packet-type") {
                                out.push(v("C01/order".into(), format!("op {} ({kind}) expected at request position {}, found {}", op.idx, ri - 1, kind_label(&p.pkt))));
                                return out;
                            }
                            out.push(v(format!("C01/field-mismatch/{}/{f}", kind_label(&want)), format!("op {}: wire {}", op.idx, short(&p.pkt))));
                        }
                        if op.err() == Some("CodecError") {
                            out.push(v(format!("C01/refused-valid/{kind}"), format!("op {} was written and yet returned {:?}", op.idx, op.outcome())));
                        }
                    }
                    None => {
                        if op.err() == Some("CodecError") || op.err() == Some("MaximumPacketSizeExceeded") || op.err() == Some("QuotaExceeded") {
                            out.push(v(format!("C01/refused-valid/{kind}"), format!("op {} returned {:?}", op.idx, op.outcome())));
                        } else if complete && a.ctx_gone.is_none() && !a.run_returned() {
                            out.push(v(format!("C01/count/{}", kind_label(&want)), format!("op {} ({kind}) was submitted but never written", op.idx)));
                        }
                        return out;
                    }
                }
                if matches!(op.spec, OpSpec::Disconnect(_)) {
                    after_disconnect = true;
                }
            }
        }
    }
    if ri < requests.len() {
        out.push(v(format!("C01/count/{}", kind_label(&requests[ri].pkt)), format!("{} request packet(s) on the wire that no operation accounts for", requests.len() - ri)));
    }
    out
}

fn short(p: &Packet) -> String {
    let s = format!("{:?}", p);
    if s.len() > 300 {
        format!("{}… [{} chars]", s.chars().take(300).collect::<String>(), s.len())
    } else {
        s
    }
}

// ---------------------------------------------------------------------------------------
// C02

fn shuffled(rng: &mut Rng, p: Props) -> Props {
    let mut items = p.0;
    rng.shuffle(&mut items);
    Props(items)
}

pub fn rich_connack_props(rng: &mut Rng, success: bool) -> Props {
    let mut p = Props::new();
    let s = |rng: &mut Rng| {
        let big = rng.chance(1, 10);
        PropVal::Str(rand_string(rng, big))
    };
    if success {
        if rng.chance(1, 3) { p.push(pid::SESSION_EXPIRY, PropVal::U32(rand_u32(rng))); }
        if rng.chance(1, 3) { p.push(pid::RECEIVE_MAXIMUM, PropVal::U16(rand_u16nz(rng))); }
        if rng.chance(1, 3) { p.push(pid::MAXIMUM_QOS, PropVal::Byte(rng.below(2) as u8)); }
        if rng.chance(1, 3) { p.push(pid::RETAIN_AVAILABLE, PropVal::Byte(rng.below(2) as u8)); }
        if rng.chance(1, 3) { p.push(pid::MAXIMUM_PACKET_SIZE, PropVal::U32(*rng.pick(&[1u32, 127, 128, 70_000, u32::MAX]))); }
        if rng.chance(1, 3) { p.push(pid::ASSIGNED_CLIENT_ID, s(rng)); }
        if rng.chance(1, 3) { p.push(pid::TOPIC_ALIAS_MAXIMUM, PropVal::U16(*rng.pick(&[0u16, 1, 65_535]))); }
        if rng.chance(1, 3) { p.push(pid::WILDCARD_AVAILABLE, PropVal::Byte(rng.below(2) as u8)); }
        if rng.chance(1, 4) { p.push(pid::SUBSCRIPTION_ID_AVAILABLE, PropVal::Byte(1)); }
        if rng.chance(1, 3) { p.push(pid::SHARED_AVAILABLE, PropVal::Byte(rng.below(2) as u8)); }
        if rng.chance(1, 3) { p.push(pid::SERVER_KEEP_ALIVE, PropVal::U16(*rng.pick(&[0u16, 1, 60, 65_535]))); }
        if rng.chance(1, 3) { p.push(pid::RESPONSE_INFO, s(rng)); }
        if rng.chance(1, 4) { p.push(pid::AUTH_METHOD, s(rng)); }
        if rng.chance(1, 4) { p.push(pid::AUTH_DATA, PropVal::Bin(rand_bytes(rng, false))); }
    }
    if !success && rng.coin() {
        // a refusing CONNACK may carry the capability properties as well; in particular
        // "Subscription Identifiers unavailable", which only a *successful* CONNACK turns into
        // the documented assertion
        if rng.chance(1, 2) { p.push(pid::SUBSCRIPTION_ID_AVAILABLE, PropVal::Byte(rng.below(2) as u8)); }
        if rng.chance(1, 3) { p.push(pid::RECEIVE_MAXIMUM, PropVal::U16(rand_u16nz(rng))); }
        if rng.chance(1, 3) { p.push(pid::MAXIMUM_QOS, PropVal::Byte(rng.below(2) as u8)); }
        if rng.chance(1, 3) { p.push(pid::RETAIN_AVAILABLE, PropVal::Byte(rng.below(2) as u8)); }
        if rng.chance(1, 3) { p.push(pid::WILDCARD_AVAILABLE, PropVal::Byte(rng.below(2) as u8)); }
        if rng.chance(1, 3) { p.push(pid::SHARED_AVAILABLE, PropVal::Byte(rng.below(2) as u8)); }
        if rng.chance(1, 3) { p.push(pid::TOPIC_ALIAS_MAXIMUM, PropVal::U16(*rng.pick(&[0u16, 1, 65_535]))); }
    }
    if rng.chance(1, 3) { p.push(pid::REASON_STRING, s(rng)); }
    if rng.chance(1, 3) { p.push(pid::SERVER_REFERENCE, s(rng)); }
    for (k, w) in rand_user(rng, false) {
        p.push(pid::USER_PROPERTY, PropVal::Pair(k, w));
    }
    shuffled(rng, p)
}

pub fn rich_publish_props(rng: &mut Rng) -> Props {
    let mut p = Props::new();
    if rng.chance(1, 3) { p.push(pid::PAYLOAD_FORMAT, PropVal::Byte(rng.below(2) as u8)); }
    if rng.chance(1, 3) { p.push(pid::MESSAGE_EXPIRY, PropVal::U32(rand_u32(rng))); }
    if rng.chance(1, 3) { p.push(pid::TOPIC_ALIAS, PropVal::U16(rand_u16nz(rng))); }
    if rng.chance(1, 3) {
        let big = rng.chance(1, 12);
        p.push(pid::RESPONSE_TOPIC, PropVal::Str(rand_string(rng, big)));
    }
    if rng.chance(1, 3) {
        let big = rng.chance(1, 12);
        p.push(pid::CORRELATION_DATA, PropVal::Bin(rand_bytes(rng, big)));
    }
    if rng.chance(1, 3) { p.push(pid::CONTENT_TYPE, PropVal::Str(rand_string(rng, false))); }
    for (k, w) in rand_user(rng, false) {
        p.push(pid::USER_PROPERTY, PropVal::Pair(k, w));
    }
    shuffled(rng, p)
}

pub fn codec_in(rng: &mut Rng) -> Case {
    let mut cfg = GenCfg::inbound(rng);
    cfg.all_reasons = true;
    cfg.ack_props = true;
    cfg.short_forms = true;
    cfg.big_payloads = rng.coin();
    cfg.receive_max = None;
    cfg.drop_streams = false;
    cfg.inbound_unknown_ids = true;
    cfg.inbound_absent_ids = true;
    cfg.w_ops = [1, 2, 2, 4, 2, 1];
    cfg.rich = true;
    // the client allows topic aliases, so the server may use them (also with an empty topic)
    cfg.own_topic_alias_max = Some(65_535);
    let variant = rng.below(10);
    let mut g = Gen::new(cfg, rng);
    // one run in ten: the Context has served a connection before, which was cut inside a packet
    let second = g.rng.chance(1, 10);
    if second {
        g.cut_connection_prelude();
    }
    let start = |connect: ConnectSpec, auths: Vec<AuthSpec>| -> Step {
        if second {
            Step::Reconnect { elapsed: 100_000, connect, auths }
        } else {
            Step::Start { connect, auths }
        }
    };
    if variant < 3 {
        // connect()/authorize() results
        let mut connect = g.connect_spec();
        let auth = g.rng.coin();
        let rounds = if auth { g.rng.urange(0, 2) } else { 0 };
        if auth {
            connect.auth_method = Some("M".into());
            connect.auth_data = Some(vec![7]);
        }
        let auths = (0..rounds).map(|_| AuthSpec { reason: Some(0x18), method: Some("M".into()), data: Some(vec![8]), user: vec![] }).collect();
        g.push(start(connect, auths));
        g.settle();
        for _ in 0..rounds {
            auth_challenge(&mut g);
        }
        if auth && g.rng.chance(1, 3) {
            auth_challenge(&mut g);
        } else {
            let success = g.rng.chance(2, 3);
            let reason = if success { 0 } else { *g.rng.pick(&rc::reason_codes(Kind::Connack)[1..]) };
            let props = rich_connack_props(g.rng, success);
            let session_present = success && g.rng.coin();
            g.broker(BrokerPkt::Connack { session_present, reason, props });
        }
        g.push(Step::Deliver { n: usize::MAX });
        g.settle();
        return finish_case(g, "codec-in/connect");
    }
    // running client: rich CONNACK first
    let connect = g.connect_spec();
    g.push(start(connect, vec![]));
    g.settle();
    let mut props = rich_connack_props(g.rng, true);
    props.0.retain(|(id, _)| *id != pid::RECEIVE_MAXIMUM && *id != pid::MAXIMUM_PACKET_SIZE);
    let session_present = g.rng.coin();
    g.broker(BrokerPkt::Connack { session_present, reason: 0, props });
    g.push(Step::Deliver { n: usize::MAX });
    g.settle();
    for _ in 0..g.cfg.steps {
        g.action();
    }
    g.drain();
    if variant == 9 {
        // a server DISCONNECT with rich properties ends the run
        let form = *g.rng.pick(&[Form::Full, Form::Full, Form::Shortest, Form::ReasonOnly]);
        let reason = *g.rng.pick(&rc::server_disconnect_reasons());
        let props = if form == Form::Full { crate::profiles::diag_props(g.rng, true) } else { Props::new() };
        g.broker(BrokerPkt::Disconnect { reason, props, form });
        g.push(Step::Deliver { n: usize::MAX });
        g.settle();
    }
    finish_case(g, "codec-in/run")
}

fn auth_challenge(g: &mut Gen) {
    if g.rng.chance(1, 8) {
        // the shortest AUTH the standard allows: remaining length 0 = reason 0x00, no properties
        g.broker(BrokerPkt::Auth { reason: 0, props: Props::new(), form: Form::Shortest });
        g.push(Step::Deliver { n: usize::MAX });
        g.settle();
        return;
    }
    let mut props = Props::new().with(pid::AUTH_METHOD, PropVal::Str(rand_string(g.rng, false)));
    if g.rng.chance(2, 3) {
        props.push(pid::AUTH_DATA, PropVal::Bin(rand_bytes(g.rng, false)));
    }
    if g.rng.coin() {
        props.push(pid::REASON_STRING, PropVal::Str(rand_string(g.rng, false)));
    }
    for (k, w) in rand_user(g.rng, false) {
        props.push(pid::USER_PROPERTY, PropVal::Pair(k, w));
    }
    let props = shuffled(g.rng, props);
    let reason = *g.rng.pick(&[0x18u8, 0x18, 0x19]);
    g.broker(BrokerPkt::Auth { reason, props, form: Form::Full });
    g.push(Step::Deliver { n: usize::MAX });
    g.settle();
}

pub fn c02(a: &Analysis, sc: &Scenario) -> Vec<Violation> {
    let mut out: Vec<Violation> = Vec::new();
    let relabel = |mut x: Violation, class: String| {
        x.property = "C02";
        x.class = class;
        x
    };
    // every well-formed packet is accepted: run()/connect() never fail without a terminating cause
    for x in oracle::c13(a, sc) {
        let class = if x.class.starts_with("C13/connect-result") {
            let tail = x.class.trim_start_matches("C13/connect-result/");
            if tail.ends_with("content") {
                format!("C02/accessor-mismatch/{}", tail.trim_end_matches("/content"))
            } else {
                format!("C02/rejected/connect-phase/{tail}")
            }
        } else if x.class.starts_with("C13/run-returned-without-cause") {
            "C02/rejected/run-phase".to_string()
        } else if x.class.starts_with("C13/run-result/server-disconnect") {
            if x.message.contains("differs") { "C02/accessor-mismatch/Disconnected".to_string() } else { "C02/rejected/DISCONNECT".to_string() }
        } else if x.class.starts_with("C13/panic") {
            continue;
        } else {
            continue;
        };
        out.push(relabel(x, class));
    }
    // second and later authorize() results
    for (c, conn) in a.conns.iter().enumerate() {
        let responses: Vec<&InView> = a.inbound.iter().filter(|i| i.p.conn == c).collect();
        for (k, (_, got)) in conn.authorize_returned.iter().enumerate() {
            let Some(resp) = responses.get(k + 1) else { continue };
            match (&resp.p.pkt, got) {
                (Some(Packet::Auth(p)), ConnectOutcome::Auth(d)) => {
                    if d.reason != p.reason || d.reason_string.as_deref() != p.props.str(pid::REASON_STRING) || d.authentication_method.as_deref() != p.props.str(pid::AUTH_METHOD) || d.authentication_data.as_deref() != p.props.bin(pid::AUTH_DATA) || d.user != p.props.user() || !d.flaws.is_empty() {
                        out.push(Violation { property: "C02", class: "C02/accessor-mismatch/AuthRsp".into(), message: format!("authorize() round {k}: got {:?}", d) });
                    }
                }
                (Some(Packet::Connack(k2)), ConnectOutcome::Connack(d)) if k2.reason < 0x80 => {
                    if *d != connack_expected(k2) {
                        out.push(Violation { property: "C02", class: "C02/accessor-mismatch/ConnectRsp".into(), message: format!("authorize(): got {:?}", d) });
                    }
                }
                (Some(Packet::Connack(k2)), ConnectOutcome::Err(e)) if k2.reason >= 0x80 && e.variant == "ConnectError" => {}
                (Some(p), other) => out.push(Violation { property: "C02", class: format!("C02/rejected/{}/authorize", p.kind().name()), message: format!("authorize() round {k} returned {:?}", other) }),
                _ => {}
            }
        }
    }
    for x in oracle::c05(a) {
        if x.class.starts_with("C05/wrong-ack") || x.class.starts_with("C05/lost-completion") {
            let class = format!("C02/accessor-mismatch/{}", x.class.trim_start_matches("C05/"));
            out.push(relabel(x, class));
        }
    }
    for x in oracle::streams_check(a, "C02") {
        let class = if x.class.starts_with("C02/content/") {
            format!("C02/accessor-mismatch/PublishData/{}", x.class.trim_start_matches("C02/content/"))
        } else if x.class.starts_with("C02/missing-item") {
            "C02/rejected/PUBLISH".to_string()
        } else {
            continue;
        };
        out.push(relabel(x, class));
    }
    out
}
