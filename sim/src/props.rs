//! Property registry: generator profile(s), oracle and evidence wording per property.

use crate::analysis::Analysis;
use crate::check::{Case, Judged, Tier};
use crate::gen::*;
use crate::oracle::{self, Violation};
use crate::refcodec::{Form, Packet, Props};
use crate::rng::{fnv_of, Rng};
use crate::scenario::*;
use crate::spec::*;
use crate::world::World;
use serde_json::json;

pub struct Plan {
    pub random_runs: u64,
}

pub fn plan(prop: &str, tier: Tier) -> Plan {
    let (q, t) = match prop {
        "C05" | "C06" => (300_000, 8_000_000),
        "C07" | "C08" | "C09" => (200_000, 5_000_000),
        "C10" => (200_000, 8_000_000),
        "C14" | "C15" => (200_000, 15_000_000),
        "C13" => (400_000, 20_000_000),
        "C12" => (250_000, 8_000_000),
        "C16" => (150_000, 6_000_000),
        "C03" => (100_000, 1_500_000),
        "C04" => (80_000, 12_000_000),
        "C01" => (300_000, 4_000_000),
        "C02" => (150_000, 3_000_000),
        "C11" => (4_000, 40_000),
        "C17" => (300_000, 20_000_000),
        _ => (10_000, 100_000),
    };
    Plan { random_runs: if tier == Tier::Quick { q } else { t } }
}

pub fn level(prop: &str) -> &'static str {
    match prop {
        "C04" | "C14" | "C17" | "C13" => "fault_enumeration",
        _ => "exploration",
    }
}

pub fn components() -> serde_json::Value {
    json!({
        "real": ["poster codec (src/codec, src/core)", "RxPacketStream/TxPacketStream (src/io)", "Context::connect/authorize/run actor", "ContextHandle operations", "SubscribeStream", "futures-channel mpsc/oneshot 0.3.34"],
        "stub": ["executor and wakers (simulator)", "AsyncRead/AsyncWrite transport (simulator)", "MQTT broker (scripted by the scenario, independent reference codec)", "select! branch arbiter (vendored futures-util, one function hooked)", "wall clock (poster::verif::set_now)"]
    })
}

pub fn assumptions(prop: &str) -> Vec<String> {
    let mut v = vec![
        "the independent reference codec (/verif/sim/src/refcodec.rs) implements MQTT 5.0 correctly (self-test vectors in setup)".to_string(),
        "seeded sampling, not enumeration: a clean batch is evidence, not proof".to_string(),
        "futures-channel behaves as in the locked version 0.3.34; the select! hook only replaces the branch-shuffle index".to_string(),
    ];
    match prop {
        "C05" | "C06" | "C10" => v.push("broker is conformant in these profiles: it acknowledges only requests seen on the wire, each once".into()),
        "C11" => v.push("fewer than 65535 identifiers are allocated while any single operation is outstanding (the property's own proviso)".into()),
        _ => {}
    }
    v
}

pub fn rule(prop: &str) -> String {
    match prop {
        "C05" => "seeded conformant-ops scenarios (1-12 ops, 1-4 handle clones, random ack order/delay, chunked reads, partial writes, 3 select policies); non-trivial = >=2 operations outstanding simultaneously; distinct = (multiset of op kinds, acknowledgement order, interleaving hash)".into(),
        "C06" => "same scenarios restricted to publishes with every legal PUBACK/PUBREC/PUBCOMP reason; non-trivial = a QoS>0 publish completed; distinct = (QoS, reason codes of its acknowledgements, number of polls of the future between phases)".into(),
        "C07" => "inbound profile: subscribes, SUBACK early/late, server PUBLISH with registered/unknown/absent identifiers, stream opens/drops, unsubscribes; non-trivial = message injected before SUBACK or before stream() or >=2 streams live; distinct = hash of (per-stream expected item list shape, timing class)".into(),
        "C08" => "inbound profile with QoS 0/1/2, DUP, PUBREL for known/unknown ids, writer back-pressure; non-trivial = >=1 inbound QoS>0 PUBLISH or PUBREL consumed; distinct = sequence of (kind, subscription-id state)".into(),
        "C09" => "inbound profile with QoS 2 re-deliveries before PUBREL and identifier reuse after it; non-trivial = >=1 re-delivery of an unreleased identifier; distinct = sequence over {first, re-delivery, release} per identifier".into(),
        "C11" => "runs that start 0-30 allocations before the 65535 wrap (conformant ops, 1-4 clones, varying numbers outstanding) and, every 400th run, one long history of 66k-72k (thorough: 70k-200k) identifier-consuming operations across the real wrap; non-trivial = the wrap was crossed; distinct = identifier sequence on the wire / (ops, wraps, max outstanding)".into(),
        "C12" => "M in {absent,1,2,3,around 128,around 16384,65-70k,2^32-1,12..90} x requests padded to L in {M-1,M,M+1}; twin run without M gives L; non-trivial = |L-M| <= 1 or a refusal; distinct = (request kind, sign of L-M, M, L)".into(),
        "C14" => "conformant/inbound histories, context dropped after a random prefix, then all streams opened and new operations started; non-trivial = operations or streams were pending at the drop; distinct = (pending op kinds, streams with buffered items, wire and inbound lengths)".into(),
        "C15" => "conformant(+inbound) workload with CancelOp/DropStream at random points, late acknowledgements still delivered, quota probe; non-trivial = an acknowledgement arrived after its operation was cancelled or a stream was dropped; distinct = (cancelled kinds x late ack counts, dropped streams)".into(),
        "C16" => "every wake-base scenario executed wake-only / sweep / spurious; non-trivial = the variant executions performed extra polls; distinct = (interleaving hash, extra polls)".into(),
        "C03" => "seeded framing scenarios (1-byte / small / held chunks, gates, scribbling reader) + systematic sweeps (all compositions of short streams, every cut, 512/1024 alignments, fixed chunk sizes, 3/4-byte remaining lengths); non-trivial = at least one read ended strictly inside a packet; distinct = (packet length sequence, cut offsets relative to packet start and to 512)".into(),
        "C04" => "hostile broker inside conformant workloads + systematic truncation / wrong-phase / fault-offset sweeps; non-trivial = hostile bytes were consumed or a transport fault fired; distinct = (hostile inputs' lengths and offsets, phase, faults seen, wire length)".into(),
        "C01" => "random option subsets with boundary values through the public API, 1-8 requests per run from 1-3 handles, partial/pending writes; non-trivial = a client packet on the wire; distinct = (packet type, set of property ids present incl. will, flag/QoS/filter-count bits, size class by remaining-length width)".into(),
        "C02" => "reference-encoded server packets with random legal property subsets in shuffled order, short forms, boundary lengths, chunked reads; non-trivial = packet consumed by the client; distinct = (packet type, property id sequence, reason/QoS/size bits, short form, size class)".into(),
        "C17" => "QoS 1/2 publish histories, connection cut (EOF / read error at a packet boundary or inside an acknowledgement, secondary: write error) after a random prefix and, systematically, after every prefix of seeded base histories; session expiry in {absent,0,30,3600,100000,never} from CONNECT and/or CONNACK; offline time well before / well after the expiry; reconnect, CONNACK, acknowledgements on the new connection; non-trivial = QoS>0 publishes existed on the old connection; distinct = (re-sent publishes, re-sent PUBRELs, old publishes, offline time, inbound count)".into(),
        "C10" => "conformant-ops with Receive Maximum in {1..12, absent}, bursts, all reason codes, then a quiescent probe submitting free+1 publishes; non-trivial = a publish was attempted with the window full or a failing completion occurred; distinct = (R, history of completion kinds, refusals)".into(),
        "C13" => "termination profile: every terminating cause at random session states; non-trivial = cause fired while state was non-idle; distinct = (cause, DISCONNECT reason, session state class)".into(),
        _ => "see DESIGN.md".into(),
    }
}

pub fn systematic(prop: &str, tier: Tier, seed: u64) -> Vec<Case> {
    match prop {
        "C04" => crate::hostile::systematic(tier == Tier::Thorough, seed),
        "C17" => crate::profiles::systematic_resume(tier == Tier::Thorough, seed),
        "C05" | "C06" => {
            let mut v = crate::profiles::systematic_ack_permutations(tier == Tier::Thorough);
            let (more, _capped) = crate::profiles::systematic_interleavings(tier == Tier::Thorough);
            v.extend(more);
            v
        }
        "C13" => crate::profiles::systematic_termination(tier == Tier::Thorough, seed),
        "C14" => crate::profiles::systematic_teardown(tier == Tier::Thorough, seed),
        "C15" => crate::profiles::systematic_cancel(tier == Tier::Thorough, seed),
        "C16" => crate::profiles::systematic_spurious(tier == Tier::Thorough, seed),
        "C03" => crate::profiles::systematic_framing(tier == Tier::Thorough),
        _ => Vec::new(),
    }
}

pub fn finish_case(g: Gen, profile: &'static str) -> Case {
    let (scenario, world) = g.finish();
    let gen_hash = Some(world.history_hash());
    drop(world);
    let _ = poster::verif::take_probes();
    Case { scenario, aux: None, profile, gen_hash, systematic: false }
}

pub fn generate(prop: &str, _tier: Tier, rng: &mut Rng, _idx: u64) -> Case {
    let deep = _tier == Tier::Thorough && _idx % 4 == 3;
    match prop {
        "C06" if _idx % 8 == 5 => {
            let mut c = crate::profiles::resume(rng);
            c.profile = "resume (publish outcomes)";
            c
        }
        "C05" | "C06" => {
            let mut cfg = GenCfg::conformant(rng);
            if deep {
                cfg.deepen();
            }
            if prop == "C06" {
                cfg.w_ops = [rng.range(1, 3) as u32, 3, 4, 0, 0, rng.range(0, 1) as u32];
                cfg.all_reasons = true;
            }
            if rng.chance(1, 4) {
                // inbound QoS 0/1/2 traffic at the same time: the server's packet identifiers
                // live in their own space and coincide with the client's all the time
                cfg.inbound = true;
                cfg.inbound_absent_ids = true;
                // subscriptions whose stream the application has dropped (their clean-up runs
                // while other operations are outstanding)
                cfg.drop_streams = rng.coin();
                cfg.w_ops[3] += 2;
            }
            let mut g = Gen::new(cfg, rng);
            g.preamble();
            let jump = g.rng.chance(1, 8);
            for _ in 0..g.cfg.steps {
                if jump && g.rng.chance(1, 6) {
                    g.id_jump();
                }
                g.action();
            }
            if g.cfg.drain {
                g.drain();
            } else {
                g.flush();
            }
            finish_case(g, "conformant-ops")
        }
        "C10" if _idx % 5 == 3 => crate::profiles::resume_quota(rng),
        "C10" => {
            let mut cfg = GenCfg::conformant(rng);
            cfg.receive_max = match rng.below(8) {
                0 => None,
                1 | 2 => Some(1),
                3 => Some(2),
                4 => Some(3),
                5 if rng.chance(1, 4) => Some(*rng.pick(&[16u16, 100])),
                _ => Some(rng.range(1, 10) as u16),
            };
            cfg.w_ops = [rng.range(0, 2) as u32, 4, 4, rng.range(0, 1) as u32, 0, rng.range(0, 1) as u32];
            cfg.max_ops = rng.urange(2, 16);
            cfg.all_reasons = true;
            if rng.chance(1, 3) {
                // the client's OWN Receive Maximum (its limit for the server) differs from R
                cfg.own_receive_max = Some(rng.range(1, 4) as u16);
            }
            if deep {
                cfg.deepen();
            }
            if rng.chance(1, 4) {
                // a Maximum Packet Size as well: publishes refused for their size must not take a slot
                cfg.max_packet = Some(rng.range(30, 60) as u32);
                cfg.oversize_pct = 30;
            }
            let r = cfg.receive_max;
            let mut g = Gen::new(cfg, rng);
            g.preamble();
            let jump = g.rng.chance(1, 10);
            for _ in 0..g.cfg.steps {
                if jump && g.rng.chance(1, 6) {
                    g.id_jump();
                }
                g.action();
            }
            g.drain();
            if let Some(r) = r {
                g.quota_probe(r as usize);
            }
            finish_case(g, "conformant-ops+quota-probe")
        }
        "C09" | "C08" | "C07" if _idx % 8 == 5 => crate::profiles::qos2_resume(rng),
        "C01" if _idx % 16 == 9 => {
            // what a resumed session re-sends is also "written by the client": judged for
            // well-formedness only
            let mut c = crate::profiles::resume(rng);
            c.profile = "codec-out/resumed-session";
            c
        }
        "C07" | "C08" | "C09" => {
            let mut cfg = GenCfg::inbound(rng);
            if prop == "C09" {
                cfg.redeliver = true;
                cfg.inbound_unknown_ids = false;
                cfg.inbound_absent_ids = false;
            }
            if prop == "C07" {
                cfg.inbound_multi_ids = rng.chance(1, 3);
                if rng.chance(1, 3) {
                    // re-deliveries of unreleased QoS 2 messages and identifier reuse after
                    // release, next to the client's own QoS 2 exchanges (same identifier space
                    // numerically, different exchanges): exactly once per stream all the same
                    cfg.redeliver = true;
                    cfg.inbound_unknown_ids = false;
                    cfg.inbound_absent_ids = false;
                }
            }
            if deep {
                cfg.deepen();
            }
            if prop == "C08" {
                cfg.writer_tweaks = rng.coin();
                cfg.pubrel_variants = rng.chance(2, 3);
            }
            if (prop == "C09" || prop == "C07") && rng.coin() {
                // PUBRELs in long form, with a failing reason code (0x92) and for identifiers
                // the client has no record of: each of them releases its identifier all the same
                cfg.pubrel_variants = true;
            }
            if prop == "C07" && rng.chance(1, 4) {
                cfg.strict_wakers = true;
                cfg.spurious = true;
            }
            let mut g = Gen::new(cfg, rng);
            g.preamble();
            let burst_at = if g.rng.chance(1, 12) { Some(g.rng.usize_below(g.cfg.steps.max(1))) } else { None };
            for k in 0..g.cfg.steps {
                if burst_at == Some(k) {
                    g.burst();
                }
                g.action();
            }
            g.drain();
            if prop == "C07" && g.rng.chance(1, 8) {
                // the SERVER ends the connection gracefully (DISCONNECT 0x00, run() returns
                // Ok): the context is still there, so no stream may end; the same Context is
                // then connected again and the old subscriptions are still served
                let form = if g.rng.coin() { Form::Shortest } else { Form::Full };
                g.broker(BrokerPkt::Disconnect { reason: 0, props: Props::new(), form });
                g.push(Step::Deliver { n: usize::MAX });
                g.settle();
                let connect = g.connect_spec();
                g.push(Step::Reconnect { elapsed: u64::MAX, connect, auths: vec![] });
                g.settle();
                let props = g.connack_props();
                g.broker(BrokerPkt::Connack { session_present: false, reason: 0, props });
                g.push(Step::Deliver { n: usize::MAX });
                g.settle();
                for sub in g.live_streams() {
                    g.inbound_publish_to(sub);
                }
                g.flush();
                return finish_case(g, "inbound/server-disconnect-then-reconnect");
            }
            finish_case(g, "inbound")
        }
        "C01" => crate::codec::codec_out(rng, _tier == Tier::Thorough),
        "C02" => crate::codec::codec_in(rng),
        "C03" => crate::profiles::framing(rng),
        "C04" => crate::hostile::hostile_case(rng),
        "C16" => crate::profiles::wake_base(rng),
        "C17" => crate::profiles::resume(rng),
        "C11" => {
            // every 400th run is a long history across the real wrap
            if _idx % 400 == 0 {
                let ops = if _tier == Tier::Thorough { 70_000 + rng.range(0, 130_000) as u32 } else { 66_000 + rng.range(0, 6_000) as u32 };
                let ops = std::env::var("POSIM_IDOPS").ok().and_then(|s| s.parse().ok()).unwrap_or(ops);
                crate::profiles::ids_long(rng, ops)
            } else if _idx % 4 == 1 {
                crate::profiles::resume_ids(rng)
            } else {
                crate::profiles::ids_near_wrap(rng)
            }
        }
        "C12" => crate::profiles::maxpacket(rng),
        "C13" => crate::profiles::termination(rng),
        "C14" => crate::profiles::teardown(rng),
        "C15" => crate::profiles::cancel(rng),
        other => panic!("no generator for property {other}"),
    }
}

pub fn probe_start(sc: &Scenario) -> Option<usize> {
    for s in &sc.steps {
        if let Step::Op { id, spec: OpSpec::Publish(p), .. } = s {
            if p.payload.as_deref() == Some(b"probe".as_slice()) {
                return Some(*id);
            }
        }
    }
    None
}

pub fn judge(prop: &str, sc: &Scenario, aux: Option<&Scenario>) -> Judged {
    let settled;
    let sc = if prop == "C03" {
        settled = crate::profiles::settle_everywhere(sc);
        &settled
    } else {
        sc
    };
    let w: World = replay(sc);
    let a = Analysis::of(&w);
    let mut j = Judged::default();
    j.measure(&w, &a);
    let mut viols: Vec<Violation> = Vec::new();
    match prop {
        "C05" => {
            viols.extend(oracle::c05(&a));
            // non-trivial: at least two operations outstanding simultaneously
            let mut spans: Vec<(usize, usize)> = Vec::new();
            for o in a.ops.values() {
                if let (Some(fp), false) = (o.first_poll, matches!(o.spec.publish_qos(), Some(0))) {
                    spans.push((fp, o.ret_seq().unwrap_or(usize::MAX)));
                }
            }
            let overlap = spans.iter().enumerate().any(|(i, x)| spans.iter().skip(i + 1).any(|y| x.0 < y.1 && y.0 < x.1));
            if overlap {
                let kinds: Vec<&str> = a.ops.values().map(|o| o.spec.kind_name()).collect();
                let order: Vec<usize> = a.inbound.iter().filter_map(|i| i.p.ack_for.map(|x| x.0)).collect();
                j.nontrivial.push(fnv_of(&(kinds, order, j.interleaving)));
            }
        }
        "C06" if a.conns.len() > 1 => {
            viols.extend(oracle::c06_resumed(&a));
        }
        "C06" => {
            viols.extend(oracle::c06(&a));
            for o in a.ops.values() {
                if let (Some(q), Some(_)) = (o.spec.publish_qos(), o.outcome()) {
                    if q > 0 {
                        let reasons: Vec<u8> = a
                            .acks_for(o.idx)
                            .iter()
                            .filter_map(|i| match &i.p.pkt {
                                Some(Packet::Puback(x)) | Some(Packet::Pubrec(x)) | Some(Packet::Pubcomp(x)) => Some(x.reason),
                                _ => None,
                            })
                            .collect();
                        let polls = a.events.iter().filter(|e| matches!(e, crate::world::Ev::PollBegin { task: TaskRef::Op(i), .. } if *i == o.idx)).count();
                        // context: how many other operations were in flight when this one finished,
                        // and in which forms its acknowledgements were encoded
                        let rs = o.ret_seq().unwrap_or(usize::MAX);
                        let others = a.ops.values().filter(|x| x.idx != o.idx && x.first_poll.map(|f| f < rs).unwrap_or(false) && x.ret_seq().map(|r| r > rs).unwrap_or(true)).count();
                        let forms: Vec<u8> = a.acks_for(o.idx).iter().map(|i| i.p.form as u8).collect();
                        j.nontrivial.push(fnv_of(&(q, reasons, polls, others.min(6), forms)));
                    }
                }
            }
        }
        "C07" => {
            let mut found = oracle::c07(&a);
            // a session that expired while offline takes its subscriptions with it: that the
            // streams of EARLIER connections end at the reset is not judged here (C07 does not
            // speak of reconnections); subscriptions made afterwards are judged as usual
            let expired_at: Option<usize> = (1..a.conns.len()).rev().find(|c| oracle::effective_elapsed(&a, *c).is_some() && oracle::session_carried(&a, *c) != Some(true));
            if let Some(cx) = expired_at {
                found.retain(|x| {
                    if !x.class.ends_with("/early-end") {
                        return true;
                    }
                    // "stream <n> ended ..."
                    let sub: Option<usize> = x.message.split_whitespace().nth(1).and_then(|t| t.parse().ok());
                    match sub.and_then(|s| a.request_of(s).first().map(|w| w.conn)) {
                        Some(conn) => conn >= cx,
                        None => false,
                    }
                });
            }
            viols.extend(found);
            let live_streams = a.streams.values().filter(|s| s.opened.is_some()).count();
            let mut key = Vec::new();
            for (s, sv) in &a.streams {
                key.push((*s, sv.items.len(), sv.dropped.is_some()));
            }
            let early = a.inbound.iter().any(|i| {
                matches!(&i.p.pkt, Some(Packet::Publish(_)))
                    && i.p.subs.iter().any(|s| match s {
                        SubRef::Op(op) => a.streams.get(op).and_then(|sv| sv.opened).map(|o| i.p.seq < o).unwrap_or(true),
                        _ => false,
                    })
            });
            if live_streams >= 2 || early {
                j.nontrivial.push(fnv_of(&(key, early, a.inbound.len())));
            }
        }
        "C08" => {
            viols.extend(oracle::c08_in(&a, Some(sc)));
            let seq: Vec<(u8, u8)> = a
                .inbound
                .iter()
                .filter_map(|i| match &i.p.pkt {
                    Some(Packet::Publish(p)) if p.qos > 0 => Some((p.qos, i.p.subs.len() as u8 + if matches!(i.p.subs.first(), Some(SubRef::Raw(_))) { 10 } else { 0 })),
                    Some(Packet::Pubrel(_)) => Some((3, 0)),
                    _ => None,
                })
                .collect();
            if !seq.is_empty() {
                j.nontrivial.push(fnv_of(&seq));
            }
        }
        "C09" => {
            viols.extend(oracle::c09(&a));
            let mut seen = std::collections::BTreeSet::new();
            let mut shape = Vec::new();
            let mut redelivery = false;
            for i in &a.inbound {
                match &i.p.pkt {
                    Some(Packet::Publish(p)) if p.qos == 2 => {
                        let id = p.pid.unwrap();
                        if !seen.insert(id) {
                            redelivery = true;
                            shape.push((1u8, p.dup));
                        } else {
                            shape.push((0u8, p.dup));
                        }
                    }
                    Some(Packet::Pubrel(r)) => {
                        seen.remove(&r.pid);
                        shape.push((2u8, false));
                    }
                    _ => {}
                }
            }
            if redelivery {
                j.nontrivial.push(fnv_of(&shape));
            }
        }
        "C10" => {
            let pf = probe_start(sc);
            viols.extend(oracle::c10(&a, pf));
            let refusals = a.ops.values().filter(|o| o.err() == Some("QuotaExceeded") && pf.map(|f| o.idx < f).unwrap_or(true)).count();
            let kinds: Vec<u8> = a
                .inbound
                .iter()
                .filter_map(|i| match &i.p.pkt {
                    Some(Packet::Puback(x)) => Some(if x.reason >= 0x80 { 1 } else { 0 }),
                    Some(Packet::Pubcomp(x)) => Some(if x.reason >= 0x80 { 3 } else { 2 }),
                    Some(Packet::Pubrec(x)) if x.reason >= 0x80 => Some(4),
                    _ => None,
                })
                .collect();
            if refusals > 0 || kinds.iter().any(|k| *k == 1 || *k == 3 || *k == 4) {
                j.nontrivial.push(fnv_of(&(kinds, refusals, a.inbound.first().map(|i| i.p.bytes_len))));
            }
        }
        "C03" => {
            let reference = match aux {
                Some(r) => crate::profiles::settle_everywhere(r),
                None => crate::profiles::whole_reads(sc),
            };
            let wr = replay(&reference);
            let ar = Analysis::of(&wr);
            j.steps += wr.steps_done;
            j.polls += wr.polls;
            drop(wr);
            viols.extend(oracle::c03(&a, &ar));
            if aux.is_some() {
                viols.extend(oracle::c03_reference(&ar, &reference));
            } else {
                // symbolic scenarios: the injected packets are known, so what the client observes
                // is also judged absolutely (chunking-independent framing defects)
                for x in oracle::c08(&a).into_iter().chain(oracle::streams_check(&a, "C03")).chain(oracle::c05(&a).into_iter().filter(|x| x.class.contains("lost-completion"))) {
                    viols.push(Violation { property: "C03", class: format!("C03/observed-differs-from-injected/{}", x.class.split('/').skip(1).collect::<Vec<_>>().join("/")), message: x.message });
                }
            }
            // non-trivial: at least one read ended strictly inside a packet
            let mut inside = 0usize;
            let mut consumed = vec![0usize; a.conns.len()];
            let bounds: Vec<Vec<usize>> = (0..a.conns.len()).map(|c| a.inbound.iter().filter(|i| i.p.conn == c).map(|i| i.p.end).collect()).collect();
            let mut cuts: Vec<(usize, usize)> = Vec::new();
            for e in &a.events {
                if let crate::world::Ev::Read { conn, n, .. } = e {
                    consumed[*conn] += n;
                    if !bounds[*conn].contains(&consumed[*conn]) {
                        inside += 1;
                        let prev = bounds[*conn].iter().copied().filter(|b| *b < consumed[*conn]).max().unwrap_or(0);
                        cuts.push((consumed[*conn] - prev, consumed[*conn] % 512));
                    }
                }
            }
            if inside > 0 {
                let stream: Vec<usize> = a.inbound.iter().map(|i| i.p.bytes_len).collect();
                j.nontrivial.push(fnv_of(&(stream, cuts)));
            }
        }
        "C01" => {
            if sc.steps.iter().any(|s| matches!(s, Step::Reconnect { .. })) {
                viols.extend(oracle::wire_wellformed(&a, "C01"));
            } else {
                viols.extend(crate::codec::c01(&a, sc));
            }
            for p in &a.wire {
                use crate::refcodec::Packet as P;
                let key: (u8, Vec<u8>, usize) = match &p.pkt {
                    P::Connect(c) => (1, c.props.0.iter().map(|x| x.0).chain(c.will.iter().flat_map(|w| w.props.0.iter().map(|x| x.0 | 0x80))).collect(), (c.username.is_some() as usize) | (c.password.is_some() as usize) << 1 | (c.will.is_some() as usize) << 2),
                    P::Publish(x) => (3, x.props.0.iter().map(|x| x.0).collect(), (x.qos as usize) | (x.retain as usize) << 2),
                    P::Subscribe(x) => (8, x.props.0.iter().map(|x| x.0).collect(), x.filters.len()),
                    P::Unsubscribe(x) => (10, x.props.0.iter().map(|x| x.0).collect(), x.filters.len()),
                    P::Disconnect(x) => (14, x.props.0.iter().map(|x| x.0).collect(), x.reason as usize),
                    P::Auth(x) => (15, x.props.0.iter().map(|x| x.0).collect(), x.reason as usize),
                    _ => continue,
                };
                let size_class = match p.len { 0..=129 => 0u8, 130..=16_386 => 1, 16_387..=2_097_154 => 2, _ => 3 };
                j.nontrivial.push(fnv_of(&(key, size_class)));
            }
        }
        "C02" => {
            viols.extend(crate::codec::c02(&a, sc));
            for i in &a.inbound {
                if let (Some(p), Some(_)) = (&i.p.pkt, i.avail_seq) {
                    use crate::refcodec::Packet as P;
                    let (ids, extra): (Vec<u8>, usize) = match p {
                        P::Connack(x) => (x.props.0.iter().map(|y| y.0).collect(), x.reason as usize),
                        P::Publish(x) => (x.props.0.iter().map(|y| y.0).collect(), x.qos as usize | (x.payload.len() / 512) << 2),
                        P::Puback(x) | P::Pubrec(x) | P::Pubrel(x) | P::Pubcomp(x) => (x.props.0.iter().map(|y| y.0).collect(), x.reason as usize),
                        P::Suback(x) | P::Unsuback(x) => (x.props.0.iter().map(|y| y.0).collect(), x.reasons.len()),
                        P::Disconnect(x) | P::Auth(x) => (x.props.0.iter().map(|y| y.0).collect(), x.reason as usize),
                        _ => (vec![], 0),
                    };
                    let size_class = match i.p.bytes_len { 0..=129 => 0u8, 130..=16_386 => 1, _ => 2 };
                    j.nontrivial.push(fnv_of(&(p.kind() as u8, ids, extra, i.p.form as u8, size_class)));
                }
            }
        }
        "C04" => {
            viols.extend(oracle::c04(&a));
            // non-trivial: hostile bytes were actually consumed, or a fault actually fired
            let raw: Vec<(usize, usize)> = a.inbound.iter().filter(|i| i.p.pkt.is_none() && a.conns[i.p.conn].consumed > i.p.start).map(|i| (i.p.bytes_len, i.p.start)).collect();
            let phase_run = a.conns.iter().any(|c| c.run_started.is_some());
            let faults: Vec<(bool, bool)> = a.conns.iter().map(|c| (c.read_end_seen.is_some(), c.write_fault_seen.is_some())).collect();
            if !raw.is_empty() || faults.iter().any(|f| f.0 || f.1) {
                let first_bytes: Vec<u8> = a.inbound.iter().filter(|i| i.p.pkt.is_none()).map(|i| (i.p.bytes_len % 251) as u8).collect();
                j.nontrivial.push(fnv_of(&(raw, phase_run, faults, first_bytes, a.wire.len())));
            }
        }
        "C11" => {
            viols.extend(oracle::c11(&a));
            let crossed = a.wire.windows(2).any(|w| matches!((w[0].pkt.pid(), w[1].pkt.pid()), (Some(x), Some(y)) if x > 60_000 && y < 1_000));
            if let Some((ops, wraps, maxo)) = a.id_history {
                if wraps > 0 {
                    j.nontrivial.push(fnv_of(&(ops, wraps, maxo)));
                }
            } else if crossed {
                let ids: Vec<u16> = a.wire.iter().filter_map(|w| w.pkt.pid()).collect();
                j.nontrivial.push(fnv_of(&(ids, a.inbound.len())));
            }
        }
        "C12" => {
            let twin_sc = crate::profiles::without_max_packet(sc);
            let wt = replay(&twin_sc);
            let at = Analysis::of(&wt);
            j.steps += wt.steps_done;
            j.polls += wt.polls;
            drop(wt);
            viols.extend(oracle::c12(&a, &at, probe_start(sc)));
            let m = a.inbound.iter().find_map(|i| match &i.p.pkt {
                Some(Packet::Connack(c)) => c.props.u32(crate::refcodec::pid::MAXIMUM_PACKET_SIZE),
                _ => None,
            });
            if let Some(m) = m {
                for o in a.ops.values() {
                    let l = match &o.spec {
                        OpSpec::Ping => Some(2usize),
                        OpSpec::Disconnect(_) => at.wire.iter().find(|p| matches!(p.pkt, Packet::Disconnect(_))).map(|p| p.len),
                        _ => at.request_of(o.idx).first().map(|p| p.len),
                    };
                    if let Some(l) = l {
                        let d = l as i64 - m as i64;
                        if (-1..=1).contains(&d) || o.err() == Some("MaximumPacketSizeExceeded") {
                            j.nontrivial.push(fnv_of(&(o.spec.kind_name(), d.clamp(-2, 2), m.min(70_000), l.min(70_000))));
                        }
                    }
                }
            }
        }
        "C17" => {
            viols.extend(oracle::c17(&a, sc));
            if a.conns.len() >= 2 && a.conns[1].run_started.is_some() {
                let unfinished = a.wire.iter().filter(|w| w.conn == 1 && matches!(&w.pkt, Packet::Publish(p) if p.dup) ).count();
                let pubrels = a.wire.iter().filter(|w| w.conn == 1 && matches!(w.pkt, Packet::Pubrel(_))).count();
                let old_pubs = a.wire.iter().filter(|w| w.conn == 0 && matches!(&w.pkt, Packet::Publish(p) if p.qos > 0)).count();
                let elapsed = sc.steps.iter().find_map(|s| if let Step::Reconnect { elapsed, .. } = s { Some(*elapsed) } else { None });
                if old_pubs > 0 {
                    j.nontrivial.push(fnv_of(&(unfinished, pubrels, old_pubs, elapsed.map(|e| e.min(200_000)), a.inbound.iter().filter(|i| i.p.conn == 0).count())));
                }
            }
        }
        "C16" => {
            viols.extend(oracle::c16_single(&a));
            // "nothing is lost" is also judged absolutely on the wake-only execution (a loss that
            // hits every polling discipline alike is invisible to the comparison below)
            for x in oracle::streams_check(&a, "C16") {
                viols.push(Violation { property: "C16", class: format!("C16/observed-differs-from-injected/{}", x.class.split('/').skip(1).collect::<Vec<_>>().join("/")), message: x.message });
            }
            let base_obs = oracle::observable(&a);
            let mut sweep_sc = sc.clone();
            sweep_sc.config.sweep = true;
            let mut variants: Vec<(&str, Scenario)> = vec![("sweep", sweep_sc)];
            if let Some(sp) = aux {
                variants.push(("spurious", sp.clone()));
            }
            let mut extra_polls = 0u64;
            for (name, vs) in variants {
                let wv = replay(&vs);
                let av = Analysis::of(&wv);
                j.steps += wv.steps_done;
                j.polls += wv.polls;
                extra_polls += wv.polls.saturating_sub(w.polls);
                for (k, n) in &wv.fault_fired {
                    *j.faults.entry(k.to_string()).or_insert(0) += n;
                }
                let ov = oracle::observable(&av);
                if let Some(d) = oracle::first_difference(&base_obs, &ov) {
                    viols.push(Violation { property: "C16", class: format!("C16/trace-differs/{name}/{d}"), message: format!("wake-only and {name} executions of the same scenario differ in {d}") });
                } else if a.raw_wire != av.raw_wire {
                    viols.push(Violation { property: "C16", class: format!("C16/trace-differs/{name}/wire-bytes"), message: format!("wake-only and {name} executions wrote different bytes") });
                }
            }
            if extra_polls > 0 {
                j.nontrivial.push(fnv_of(&(j.interleaving, extra_polls)));
            }
        }
        "C13" => {
            viols.extend(oracle::c13(&a, sc));
            for (c, conn) in a.conns.iter().enumerate() {
                let cs = oracle::causes(&a, sc, c);
                let outstanding = a.ops.values().filter(|o| o.first_poll.is_some() && o.ret_seq().map(|r| conn.run_returned.as_ref().map(|x| r > x.0).unwrap_or(true)).unwrap_or(true)).count();
                let streams = a.streams.values().filter(|s| s.opened.is_some()).count();
                let connect_kind = conn.connect_returned.as_ref().map(|x| match &x.1 {
                    ConnectOutcome::Connack(_) => 0u8,
                    ConnectOutcome::Auth(_) => 1,
                    ConnectOutcome::Err(e) => 2 + (e.variant.len() as u8),
                });
                if !cs.is_empty() && (outstanding > 0 || streams > 0) {
                    let names: Vec<String> = cs.iter().map(|x| format!("{:?}", std::mem::discriminant(x))).collect();
                    let reason = a.inbound.iter().rev().find_map(|i| match &i.p.pkt {
                        Some(Packet::Disconnect(p)) => Some(p.reason),
                        _ => None,
                    });
                    j.nontrivial.push(fnv_of(&(names, reason, outstanding.min(5), streams.min(3))));
                } else if connect_kind.map(|k| k != 0).unwrap_or(false) {
                    j.nontrivial.push(fnv_of(&(connect_kind, conn.authorize_returned.len(), conn.consumed)));
                }
            }
        }
        "C14" => {
            viols.extend(oracle::c14(&a, sc));
            if let Some(gone) = a.ctx_gone {
                let phases: Vec<&str> = a.ops.values().filter(|o| o.ret_seq().map(|r| r > gone).unwrap_or(true)).map(|o| o.spec.kind_name()).collect();
                let buffered = a.streams.values().filter(|s| s.items.iter().any(|i| i.0 > gone)).count();
                if !phases.is_empty() || !a.streams.is_empty() {
                    j.nontrivial.push(fnv_of(&(phases, buffered, a.wire.len(), a.inbound.len())));
                }
            }
        }
        "C15" => {
            viols.extend(oracle::c15(&a, probe_start(sc)));
            let cancelled: Vec<(&str, usize)> = a
                .ops
                .values()
                .filter(|o| o.cancelled.is_some())
                .map(|o| (o.spec.kind_name(), a.acks_for(o.idx).iter().filter(|i| i.avail_seq.map(|s| s > o.cancelled.unwrap()).unwrap_or(false)).count()))
                .collect();
            let dropped = a.streams.values().filter(|s| s.dropped.is_some()).count();
            if cancelled.iter().any(|c| c.1 > 0) || dropped > 0 {
                j.nontrivial.push(fnv_of(&(cancelled, dropped, a.ops.len())));
            }
        }
        other => panic!("no oracle for property {other}"),
    }
    if !matches!(prop, "C04") {
        let prop_static: &'static str = match prop {
            "C01" => "C01", "C02" => "C02", "C03" => "C03", "C05" => "C05", "C06" => "C06", "C07" => "C07", "C08" => "C08",
            "C09" => "C09", "C10" => "C10", "C11" => "C11", "C12" => "C12", "C13" => "C13", "C14" => "C14", "C15" => "C15",
            "C16" => "C16", _ => "C17",
        };
        viols.extend(oracle::guard_panics(&a, prop_static));
    }
    j.violations = viols;
    j
}
