//! Scenario = configuration + explicit list of steps. Executing a recorded scenario uses no
//! PRNG: replay is a pure function of the file and the code.

use crate::refcodec::{Form, Props};
use crate::spec::{AuthSpec, ConnectSpec, OpSpec};
use serde::{Deserialize, Serialize};

#[derive(Clone, Copy, Debug, PartialEq, Eq, Hash, Serialize, Deserialize)]
pub enum SelectPolicy {
    /// `select!` serves the inbound packet first when both branches are ready.
    PacketFirst,
    /// `select!` serves the handle message first when both branches are ready.
    MessageFirst,
    /// Hash of (seed, bytes read, bytes written, operations started): a function of library
    /// progress, not of how often `select!` was polled.
    Hashed(u64),
}

#[derive(Clone, Debug, PartialEq, Eq, Hash, Serialize, Deserialize)]
pub struct Config {
    pub select: SelectPolicy,
    /// After every step additionally poll every live task whose waker has not fired.
    pub sweep: bool,
    /// The reader overwrites the unfilled tail of the caller's buffer (legal for AsyncRead).
    pub scribble: bool,
    pub handles: usize,
    /// Preset (packet id, subscription id) counters (C11).
    pub preset_ids: Option<(u16, u32)>,
    /// A read returns as much of what is available as fits into the caller's buffer (what a
    /// socket does), instead of one delivered chunk per read.
    #[serde(default)]
    pub coalesce: bool,
    /// Only the waker of a task's most recent poll counts; wakes through wakers of earlier polls
    /// are ignored (legal for an executor, fatal for a future that parks on a stale waker).
    #[serde(default)]
    pub strict_wakers: bool,
}

impl Default for Config {
    fn default() -> Self {
        Config { select: SelectPolicy::PacketFirst, sweep: false, scribble: false, handles: 1, preset_ids: None, coalesce: false, strict_wakers: false }
    }
}

#[derive(Clone, Copy, Debug, PartialEq, Eq, Hash, Serialize, Deserialize, PartialOrd, Ord)]
pub enum TaskRef {
    Ctx,
    Op(usize),
    Consumer(usize),
}

/// How the bytes of a broker packet are cut into transport reads.
#[derive(Clone, Debug, PartialEq, Eq, Hash, Serialize, Deserialize)]
pub enum Chunks {
    Whole,
    Each(usize),
    /// Explicit sizes; what is left after the last size forms one more chunk.
    Sizes(Vec<usize>),
}

impl Chunks {
    pub fn cut(&self, bytes: &[u8]) -> Vec<Vec<u8>> {
        let mut out = Vec::new();
        match self {
            Chunks::Whole => out.push(bytes.to_vec()),
            Chunks::Each(n) => {
                for c in bytes.chunks((*n).max(1)) {
                    out.push(c.to_vec());
                }
            }
            Chunks::Sizes(sizes) => {
                let mut pos = 0;
                for &s in sizes {
                    if pos >= bytes.len() {
                        break;
                    }
                    let s = s.max(1).min(bytes.len() - pos);
                    out.push(bytes[pos..pos + s].to_vec());
                    pos += s;
                }
                if pos < bytes.len() {
                    out.push(bytes[pos..].to_vec());
                }
            }
        }
        if out.is_empty() {
            out.push(Vec::new());
        }
        out.retain(|c| !c.is_empty());
        out
    }
}

#[derive(Clone, Copy, Debug, PartialEq, Eq, Hash, Serialize, Deserialize)]
pub enum AckKind {
    Puback,
    Pubrec,
    Pubcomp,
    Suback,
    Unsuback,
}

#[derive(Clone, Copy, Debug, PartialEq, Eq, Hash, Serialize, Deserialize)]
pub enum IdSpec {
    /// An identifier not currently in use by an unreleased inbound QoS 2 message.
    Fresh,
    /// The lowest identifier whose previous QoS 2 exchange (if any) the client has completed
    /// with PUBCOMP: what a broker that reuses identifiers eagerly would pick.
    LowestFree,
    Raw(u16),
    /// Same identifier as inbound PUBLISH number `n` (order of injection).
    SameAs(usize),
}

#[derive(Clone, Copy, Debug, PartialEq, Eq, Hash, Serialize, Deserialize)]
pub enum SubRef {
    /// Subscription identifier the client put into the SUBSCRIBE of operation `n`.
    Op(usize),
    Raw(u32),
}

#[derive(Clone, Debug, PartialEq, Eq, Hash, Serialize, Deserialize)]
pub enum BrokerPkt {
    Connack { session_present: bool, reason: u8, props: Props },
    Auth { reason: u8, props: Props, form: Form },
    /// Acknowledgement addressed to client operation `op`; the packet identifier is read off
    /// the wire when the step executes (no-op if the request is not on the wire).
    Ack { op: usize, kind: AckKind, reasons: Vec<u8>, props: Props, form: Form },
    AckRaw { kind: AckKind, pid: u16, reasons: Vec<u8>, props: Props, form: Form },
    Publish {
        subs: Vec<SubRef>,
        qos: u8,
        id: IdSpec,
        dup: bool,
        retain: bool,
        topic: String,
        payload: Vec<u8>,
        props: Props,
    },
    Pubrel { id: IdSpec, reason: u8, props: Props, form: Form },
    Pingresp,
    Disconnect { reason: u8, props: Props, form: Form },
    Raw(Vec<u8>),
}

#[derive(Clone, Copy, Debug, PartialEq, Eq, Hash, Serialize, Deserialize)]
pub enum FaultKind {
    /// End-of-stream once the bytes already delivered have been read; undelivered bytes are lost.
    ReadEof,
    /// I/O error once the bytes already delivered have been read.
    ReadErr,
    /// The next `poll_read` fails once with a transient error kind (0 Interrupted, 1 WouldBlock,
    /// 2 TimedOut, 3 Other) although bytes may be available; the transport stays usable.
    ReadGlitch { kind: u8 },
    /// `poll_write` fails after `after` more bytes were accepted.
    WriteErr { after: usize },
    /// `poll_write` returns `Ok(0)` after `after` more bytes were accepted.
    WriteZero { after: usize },
}

#[derive(Clone, Debug, PartialEq, Eq, Hash, Serialize, Deserialize)]
pub enum Step {
    /// First connection: fresh transports, `connect(opts)` (+ `authorize` rounds), then `run()`.
    Start { connect: ConnectSpec, auths: Vec<AuthSpec> },
    /// After `run()` returned: record the disconnection `elapsed` seconds in the past, fresh
    /// transports, connect again, `run()`.
    Reconnect { elapsed: u64, connect: ConnectSpec, auths: Vec<AuthSpec> },
    /// Lets the context task finish (the `Context` is dropped at its end).
    End,
    /// `id` is the operation's identity in this scenario (also embedded as marker in its
    /// topic / first filter where the request has one); it survives step removal.
    Op { id: usize, handle: usize, spec: OpSpec },
    Poll(TaskRef),
    /// Poll the `pick mod n`-th woken task (ascending task order).
    RunOne { pick: usize },
    /// Poll the `pick mod n`-th live task whose waker has NOT fired (a spurious poll).
    Spurious { pick: usize },
    /// Poll woken tasks, order drawn from the recorded `seed`, until none is woken.
    Settle { seed: u64 },
    Broker { pkt: BrokerPkt, chunks: Chunks, hold: bool },
    Deliver { n: usize },
    /// The reader answers its next poll with `Pending` (after arranging a wake-up) although
    /// data may be available.
    ReadGate,
    WriterSizes { sizes: Vec<usize> },
    WriterBlock { after: usize },
    WriterReady,
    Fault(FaultKind),
    CancelOp(usize),
    DropStream(usize),
    DropHandle(usize),
    DropContext,
    OpenStream(usize),
    AdvanceClock(u64),
    /// Sets the handle's identifier counters (verification hook): the next packet identifier and
    /// the next subscription identifier. Used to bring identifiers that are far apart in
    /// allocation order next to each other in time (e.g. k and k+256 both outstanding).
    SetNextIds { packet_id: u16, sub_id: u32 },
    /// Macro step (C11): a PRNG-driven history of `ops` identifier-consuming operations from
    /// `clones` handle clones with at most `max_outstanding` unacknowledged, executed and
    /// checked online (identifier uniqueness among outstanding operations). A pure function of
    /// its parameters; the history is compacted as it goes so that 10^5 operations fit.
    /// `pin`: the first operation of the history is never acknowledged (it stays outstanding
    /// while tens of thousands of identifiers are allocated: the property's proviso boundary).
    IdHistory { seed: u64, ops: u32, clones: usize, max_outstanding: usize, #[serde(default)] pin: bool },
}

impl Step {
    pub fn kind_name(&self) -> &'static str {
        match self {
            Step::Start { .. } => "Start",
            Step::Reconnect { .. } => "Reconnect",
            Step::End => "End",
            Step::Op { .. } => "Op",
            Step::Poll(_) => "Poll",
            Step::RunOne { .. } => "RunOne",
            Step::Spurious { .. } => "Spurious",
            Step::Settle { .. } => "Settle",
            Step::Broker { .. } => "Broker",
            Step::Deliver { .. } => "Deliver",
            Step::ReadGate => "ReadGate",
            Step::WriterSizes { .. } => "WriterSizes",
            Step::WriterBlock { .. } => "WriterBlock",
            Step::WriterReady => "WriterReady",
            Step::Fault(_) => "Fault",
            Step::CancelOp(_) => "CancelOp",
            Step::DropStream(_) => "DropStream",
            Step::DropHandle(_) => "DropHandle",
            Step::DropContext => "DropContext",
            Step::OpenStream(_) => "OpenStream",
            Step::AdvanceClock(_) => "AdvanceClock",
            Step::SetNextIds { .. } => "SetNextIds",
            Step::IdHistory { .. } => "IdHistory",
        }
    }
    pub fn is_fault(&self) -> bool {
        matches!(self, Step::Fault(_))
    }
}

#[derive(Clone, Debug, PartialEq, Eq, Hash, Serialize, Deserialize)]
pub struct Scenario {
    pub config: Config,
    pub steps: Vec<Step>,
}

/// On-disk replay file.
#[derive(Clone, Debug, Serialize, Deserialize)]
pub struct ReplayFile {
    pub property: String,
    pub class: String,
    pub message: String,
    pub seed: u64,
    pub run: u64,
    pub profile: String,
    /// Extra oracle parameter (e.g. the reference scenario for differential checks).
    pub aux: Option<Scenario>,
    pub scenario: Scenario,
    pub original_steps: usize,
    /// Set when the run could not be recorded as a step list because a poll never returned:
    /// the replay regenerates the run from (seed, index) and watches the clock.
    #[serde(default)]
    pub regenerate: Option<Regenerate>,
}

#[derive(Clone, Debug, Serialize, Deserialize)]
pub struct Regenerate {
    pub tier: String,
    pub index: u64,
    pub systematic: bool,
}
