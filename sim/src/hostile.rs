//! C04: hostile broker — wrong-phase packets, mutated packets, byte soup, transport faults.

use crate::check::Case;
use crate::gen::*;
use crate::props::finish_case;
use crate::refcodec::{self as rc, encode, encode_form, pid, put_varint, Form, Kind, Packet, PropVal, Props};
use crate::rng::Rng;
use crate::scenario::*;
use crate::spec::*;

const ALPHABET: &[u8] = &[
    0x00, 0x01, 0x02, 0x03, 0x04, 0x05, 0x7f, 0x80, 0x81, 0xfe, 0xff, 0x10, 0x20, 0x30, 0x32, 0x34, 0x36, 0x3b, 0x40, 0x50, 0x60, 0x62, 0x70,
    0x82, 0x90, 0xa2, 0xb0, 0xc0, 0xd0, 0xe0, 0xf0, 0x0b, 0x11, 0x1f, 0x21, 0x26, 0x27,
];

fn text(rng: &mut Rng) -> String {
    match rng.below(5) {
        0 => String::new(),
        1 => "ü→✓".into(),
        2 => "x".repeat(rng.urange(120, 135)),
        _ => format!("s{}", rng.below(100)),
    }
}

fn some_props(rng: &mut Rng, kind: Kind) -> Props {
    let mut p = Props::new();
    for id in [0x01u8, 0x02, 0x03, 0x08, 0x09, 0x0b, 0x11, 0x12, 0x13, 0x15, 0x16, 0x1a, 0x1c, 0x1f, 0x21, 0x22, 0x23, 0x24, 0x25, 0x26, 0x27, 0x28, 0x29, 0x2a] {
        let Some((ty, kinds, _)) = rc::prop_info(id) else { continue };
        if !kinds.contains(&kind) || !rng.chance(1, 3) {
            continue;
        }
        if id == 0x29 {
            continue; // keep Subscription Identifier Available at its default
        }
        let v = match ty {
            rc::PType::Byte => PropVal::Byte(rng.below(2) as u8),
            rc::PType::U16 => PropVal::U16(rng.range(1, 65535) as u16),
            rc::PType::U32 => PropVal::U32(rng.range(1, u32::MAX as u64) as u32),
            rc::PType::VarInt => PropVal::VarInt(rng.range(1, 268_435_455) as u32),
            rc::PType::Str => PropVal::Str(text(rng)),
            rc::PType::Bin => {
                let n = rng.urange(0, 9);
                PropVal::Bin(rng.bytes(n))
            }
            rc::PType::Pair => PropVal::Pair(text(rng), text(rng)),
        };
        p.push(id, v);
    }
    p
}

/// A random well-formed server packet of the given kind.
pub fn valid_packet(rng: &mut Rng, kind: Kind) -> Packet {
    let pid_ = rng.range(1, 65535) as u16;
    match kind {
        Kind::Connack => Packet::Connack(rc::Connack { session_present: rng.coin(), reason: *rng.pick(rc::reason_codes(kind)), props: some_props(rng, kind) }),
        Kind::Publish => {
            let qos = rng.below(3) as u8;
            let plen = rng.urange(0, 20);
            Packet::Publish(rc::Publish {
                dup: qos > 0 && rng.coin(),
                qos,
                retain: rng.coin(),
                topic: text(rng),
                pid: if qos > 0 { Some(pid_) } else { None },
                props: some_props(rng, kind),
                payload: rng.bytes(plen),
            })
        }
        Kind::Puback | Kind::Pubrec | Kind::Pubrel | Kind::Pubcomp => {
            let a = rc::Ack { pid: pid_, reason: *rng.pick(rc::reason_codes(kind)), props: some_props(rng, kind) };
            match kind {
                Kind::Puback => Packet::Puback(a),
                Kind::Pubrec => Packet::Pubrec(a),
                Kind::Pubrel => Packet::Pubrel(a),
                _ => Packet::Pubcomp(a),
            }
        }
        Kind::Suback | Kind::Unsuback => {
            let n = rng.urange(1, 4);
            let s = rc::SubAck { pid: pid_, props: some_props(rng, kind), reasons: (0..n).map(|_| *rng.pick(rc::reason_codes(kind))).collect() };
            if kind == Kind::Suback {
                Packet::Suback(s)
            } else {
                Packet::Unsuback(s)
            }
        }
        Kind::Pingresp => Packet::Pingresp,
        Kind::Disconnect => Packet::Disconnect(rc::ReasonProps { reason: *rng.pick(&rc::server_disconnect_reasons()), props: some_props(rng, kind) }),
        Kind::Auth => {
            let mut props = some_props(rng, kind);
            if props.get(pid::AUTH_METHOD).is_none() {
                props.push(pid::AUTH_METHOD, PropVal::Str("m".into()));
            }
            Packet::Auth(rc::ReasonProps { reason: *rng.pick(rc::reason_codes(kind)), props })
        }
        // client-to-server kinds: still "packets" a hostile peer may send
        Kind::Connect => Packet::Connect(rc::Connect { clean_start: true, keep_alive: 1, props: Props::new(), client_id: "x".into(), will: None, username: None, password: None }),
        Kind::Subscribe => Packet::Subscribe(rc::Subscribe { pid: pid_, props: Props::new(), filters: vec![("a".into(), Default::default())] }),
        Kind::Unsubscribe => Packet::Unsubscribe(rc::Unsubscribe { pid: pid_, props: Props::new(), filters: vec!["a".into()] }),
        Kind::Pingreq => Packet::Pingreq,
        Kind::Will => Packet::Pingresp,
    }
}

pub const SERVER_KINDS: &[Kind] = &[
    Kind::Connack, Kind::Publish, Kind::Puback, Kind::Pubrec, Kind::Pubrel, Kind::Pubcomp, Kind::Suback, Kind::Unsuback, Kind::Pingresp,
    Kind::Disconnect, Kind::Auth,
];
pub const ALL_KINDS: &[Kind] = &[
    Kind::Connect, Kind::Connack, Kind::Publish, Kind::Puback, Kind::Pubrec, Kind::Pubrel, Kind::Pubcomp, Kind::Subscribe, Kind::Suback,
    Kind::Unsubscribe, Kind::Unsuback, Kind::Pingreq, Kind::Pingresp, Kind::Disconnect, Kind::Auth,
];

/// Re-frames a body under the given first byte with a correct remaining length.
fn reframe(first: u8, body: &[u8]) -> Vec<u8> {
    let mut out = vec![first];
    put_varint(&mut out, body.len() as u32);
    out.extend_from_slice(body);
    out
}

fn split(bytes: &[u8]) -> (u8, usize, &[u8]) {
    // (first byte, header length, body)
    let mut hdr = 1;
    while hdr < bytes.len() && hdr < 5 && bytes[hdr] & 0x80 != 0 {
        hdr += 1;
    }
    hdr = (hdr + 1).min(bytes.len());
    (bytes[0], hdr, &bytes[hdr..])
}

pub const MUTATIONS: usize = 12;

/// Operation id of the "are you still serving?" ping appended to cases whose inbound bytes are
/// all well-formed packets.
pub const LIVENESS_PING: usize = 9000;

/// Applies mutation `m` to a well-formed packet; returns the bytes to deliver.
pub fn mutate(rng: &mut Rng, bytes: &[u8], m: usize) -> Vec<u8> {
    let (first, hdr, body) = split(bytes);
    match m {
        0 => {
            // truncate the body, remaining length adjusted (complete frame, short content)
            let k = rng.urange(0, body.len());
            reframe(first, &body[..k])
        }
        1 => {
            // truncate without adjusting (frame promises more than ever arrives... followed by a ping response)
            let k = rng.urange(1, bytes.len());
            let mut v = bytes[..k].to_vec();
            v.extend_from_slice(&[0xd0, 0x00]);
            v
        }
        2 => {
            // remaining length off by one / extreme
            let delta = *rng.pick(&[-1i64, 1, 2, 127, 128, 16384]);
            let rl = (body.len() as i64 + delta).max(0) as u32;
            let mut out = vec![first];
            put_varint(&mut out, rl.min(268_435_455));
            out.extend_from_slice(body);
            out
        }
        3 => {
            // flip one bit
            let mut v = bytes.to_vec();
            let i = rng.usize_below(v.len());
            v[i] ^= 1 << rng.below(8);
            v
        }
        4 => {
            // overwrite one byte with a boundary value
            let mut v = bytes.to_vec();
            let i = rng.usize_below(v.len());
            v[i] = *rng.pick(ALPHABET);
            v
        }
        5 => {
            // splice a property from another packet type into the body end (length fields not adjusted)
            let mut b = body.to_vec();
            let extra = rc::encode_props_body(&Props::new().with(*rng.pick(&[0x01u8, 0x0b, 0x11, 0x21, 0x23, 0x27, 0x2a, 0x7f]), PropVal::Byte(1)));
            b.extend_from_slice(&extra);
            reframe(first, &b)
        }
        6 => {
            // over-long variable byte integer as remaining length
            let mut out = vec![first];
            out.extend_from_slice(*rng.pick(&[&[0xff, 0xff, 0xff, 0xff, 0x7f][..], &[0x80, 0x80, 0x80, 0x80, 0x01][..], &[0xff, 0xff, 0xff, 0xff, 0xff, 0xff][..], &[0x80, 0x00][..]]));
            out.extend_from_slice(body);
            out
        }
        7 => {
            // inflate an inner length field: first 2-byte or var-int looking position
            let mut b = body.to_vec();
            if !b.is_empty() {
                let i = rng.usize_below(b.len());
                b[i] = *rng.pick(&[0xff, 0x80, 0x7f, 0x00]);
                if i + 1 < b.len() && rng.coin() {
                    b[i + 1] = 0xff;
                }
            }
            reframe(first, &b)
        }
        8 => {
            // change the packet type nibble, keep the body
            let k = *rng.pick(ALL_KINDS) as u8;
            let mut v = bytes.to_vec();
            v[0] = (k << 4) | (rng.below(16) as u8 & if rng.coin() { 0x0f } else { 0 });
            v
        }
        9 => {
            // reserved flag bits
            let mut v = bytes.to_vec();
            v[0] ^= 1 << rng.below(4);
            v
        }
        10 => {
            // drop a byte from the body, remaining length adjusted
            let mut b = body.to_vec();
            if !b.is_empty() {
                b.remove(rng.usize_below(b.len()));
            }
            reframe(first, &b)
        }
        _ => {
            // duplicate the packet back to back with its header damaged in the copy
            let mut v = bytes.to_vec();
            let mut c = bytes.to_vec();
            if hdr < c.len() {
                c[hdr] = *rng.pick(ALPHABET);
            }
            v.extend_from_slice(&c);
            v
        }
    }
}

fn soup(rng: &mut Rng) -> Vec<u8> {
    let n = rng.urange(1, 24);
    (0..n).map(|_| *rng.pick(ALPHABET)).collect()
}

/// Largest remaining length a frame starting anywhere in `bytes` could announce.
fn max_announced(bytes: &[u8]) -> u64 {
    let mut best = 0u64;
    for start in 0..bytes.len() {
        let mut mult = 1u64;
        let mut val = 0u64;
        for (i, b) in bytes[start + 1..].iter().take(4).enumerate() {
            val += (*b as u64 & 0x7f) * mult;
            mult *= 128;
            if b & 0x80 == 0 {
                best = best.max(val);
                break;
            }
            let _ = i;
        }
    }
    best
}

/// A hostile inbound byte string; returns (bytes, (mutation kind label, packet kind)).
/// Announced remaining lengths above 1 MiB make the framing layer allocate that much, so they
/// are kept rare (1 in 16 of the draws that produce one).
pub fn hostile_bytes(rng: &mut Rng) -> (Vec<u8>, (u8, u8)) {
    loop {
        let out = hostile_bytes_once(rng);
        if max_announced(&out.0) <= (1 << 20) || rng.chance(1, 16) {
            return out;
        }
    }
}

fn hostile_bytes_once(rng: &mut Rng) -> (Vec<u8>, (u8, u8)) {
    match rng.below(10) {
        0 => (soup(rng), (100, 0)),
        1 | 2 => {
            // well-formed packet of an arbitrary kind (wrong phase / unknown identifiers)
            let k = *rng.pick(ALL_KINDS);
            let p = valid_packet(rng, k);
            let form = *rng.pick(&[Form::Full, Form::Shortest, Form::ReasonOnly]);
            (encode_form(&p, form), (101, k as u8))
        }
        _ => {
            let k = *rng.pick(SERVER_KINDS);
            let p = valid_packet(rng, k);
            let m = rng.usize_below(MUTATIONS);
            let b = encode(&p);
            (mutate(rng, &b, m), (m as u8, k as u8))
        }
    }
}

pub fn hostile_case(rng: &mut Rng) -> Case {
    let mut cfg = if rng.coin() { GenCfg::inbound(rng) } else { GenCfg::conformant(rng) };
    cfg.steps = rng.urange(0, 40);
    cfg.scribble = rng.chance(1, 4);
    let variant = rng.below(10);
    let mut g = Gen::new(cfg, rng);
    if variant < 3 {
        // hostile first response to connect() / authorize()
        let with_auth = g.rng.coin();
        let mut connect = g.connect_spec();
        let mut auths = vec![];
        if with_auth {
            connect.auth_method = Some("M".into());
            connect.auth_data = Some(vec![1]);
            auths.push(AuthSpec { reason: Some(0x18), method: Some("M".into()), data: Some(vec![2]), user: vec![] });
        }
        g.push(Step::Start { connect, auths });
        g.settle();
        if with_auth && g.rng.coin() {
            let props = Props::new().with(pid::AUTH_METHOD, PropVal::Str("M".into())).with(pid::AUTH_DATA, PropVal::Bin(vec![9]));
            g.broker(BrokerPkt::Auth { reason: 0x18, props, form: Form::Full });
            g.push(Step::Deliver { n: usize::MAX });
            g.settle();
        }
        let (bytes, _) = hostile_bytes(g.rng);
        let chunks = g.chunks(bytes.len());
        g.push(Step::Broker { pkt: BrokerPkt::Raw(bytes), chunks, hold: false });
        g.settle();
        if g.rng.coin() {
            let k = if g.rng.coin() { FaultKind::ReadEof } else { FaultKind::ReadErr };
            g.push(Step::Fault(k));
            g.settle();
        }
        return finish_case(g, "hostile/connect");
    }
    g.preamble();
    let n_hostile = g.rng.urange(1, 4);
    let mut injected = 0;
    for i in 0..g.cfg.steps + n_hostile {
        let left = g.cfg.steps + n_hostile - i;
        if injected < n_hostile && (g.rng.usize_below(left) < n_hostile - injected) {
            injected += 1;
            match g.rng.below(8) {
                0 => {
                    let glitch = FaultKind::ReadGlitch { kind: g.rng.below(4) as u8 };
                    let k = g.rng.pick(&[FaultKind::ReadEof, FaultKind::ReadErr, glitch]).clone();
                    // cut inside a packet: deliver a prefix of something first
                    if g.rng.coin() {
                        let kind = *g.rng.pick(SERVER_KINDS);
                        let p = valid_packet(g.rng, kind);
                        let b = encode(&p);
                        let cut = g.rng.urange(1, b.len());
                        g.push(Step::Broker { pkt: BrokerPkt::Raw(b), chunks: Chunks::Sizes(vec![cut]), hold: true });
                        g.push(Step::Deliver { n: 1 });
                    }
                    g.push(Step::Fault(k));
                }
                1 => {
                    let after = g.rng.urange(0, 40);
                    let k = if g.rng.coin() { FaultKind::WriteErr { after } } else { FaultKind::WriteZero { after } };
                    g.push(Step::Fault(k));
                }
                _ => {
                    let (bytes, _) = hostile_bytes(g.rng);
                    let chunks = g.chunks(bytes.len());
                    let hold = g.rng.chance(1, 5);
                    g.push(Step::Broker { pkt: BrokerPkt::Raw(bytes), chunks, hold });
                }
            }
        } else {
            g.action();
        }
    }
    g.flush();
    finish_case(g, "hostile/run")
}

/// Systematic part: truncation of every packet type at every offset, remaining length +-1,
/// every packet type as first response, EOF / error at every inbound byte offset and write
/// error at every outbound byte offset of a base scenario.
pub fn systematic(thorough: bool, seed: u64) -> Vec<Case> {
    let mut cases = Vec::new();
    let config = Config::default();
    let connect = ConnectSpec { client_id: Some("sim".into()), ..Default::default() };
    let mut rng = Rng::derive(seed, 0xC04, 7);
    let run_prefix = vec![
        Step::Start { connect: connect.clone(), auths: vec![] },
        Step::Settle { seed: 0 },
        Step::Broker { pkt: BrokerPkt::Connack { session_present: false, reason: 0, props: Props::new() }, chunks: Chunks::Whole, hold: false },
        Step::Settle { seed: 1 },
        Step::Op { id: 0, handle: 0, spec: OpSpec::Subscribe(SubscribeSpec { filters: vec![("f/0/x".into(), SubOptSpec::default())], user: vec![] }) },
        Step::Op { id: 1, handle: 0, spec: OpSpec::Publish(PublishSpec { qos: Some(2), topic: Some("t/1".into()), payload: Some(b"x".to_vec()), ..Default::default() }) },
        Step::Op { id: 2, handle: 0, spec: OpSpec::Ping },
        Step::Settle { seed: 2 },
    ];
    let connect_prefix = vec![Step::Start { connect: connect.clone(), auths: vec![] }, Step::Settle { seed: 0 }];
    let mk = |prefix: &[Step], bytes: Vec<u8>, tail: Vec<Step>| -> Case {
        let mut steps = prefix.to_vec();
        steps.push(Step::Broker { pkt: BrokerPkt::Raw(bytes), chunks: Chunks::Whole, hold: false });
        steps.push(Step::Settle { seed: 3 });
        steps.extend(tail);
        Case { scenario: Scenario { config: config.clone(), steps }, aux: None, profile: "hostile/systematic", gen_hash: None, systematic: true }
    };
    let liveness = vec![
        Step::Op { id: LIVENESS_PING, handle: 0, spec: OpSpec::Ping },
        Step::Settle { seed: 6 },
        Step::Broker { pkt: BrokerPkt::Pingresp, chunks: Chunks::Whole, hold: false },
        Step::Broker { pkt: BrokerPkt::Pingresp, chunks: Chunks::Whole, hold: false },
        Step::Settle { seed: 7 },
    ];
    // large well-formed packets: 2- , 3- and 4-byte remaining lengths
    for n in [100usize, 200, 20_000, 2_097_152 - 8, 2_100_000] {
        let p = Packet::Publish(rc::Publish { dup: false, qos: 1, retain: false, topic: "a".into(), pid: Some(3), props: Props::new().with(pid::SUBSCRIPTION_ID, PropVal::VarInt(1)), payload: vec![b'x'; n] });
        for chunks in [Chunks::Whole, Chunks::Each(65_536), Chunks::Sizes(vec![4])] {
            let mut steps = run_prefix.clone();
            steps.push(Step::Broker { pkt: BrokerPkt::Raw(encode(&p)), chunks, hold: false });
            steps.push(Step::Settle { seed: 3 });
            steps.extend(liveness.clone());
            cases.push(Case { scenario: Scenario { config: config.clone(), steps }, aux: None, profile: "hostile/large-valid-packets", gen_hash: None, systematic: true });
        }
    }
    // every value of the reason byte, for every packet type that has one, in the short form
    // (reason only) and the long form (reason + empty property list), in both phases: reason
    // codes the standard does not define for that packet, or defines for the other direction
    // only, are input like any other
    {
        let id = [0x00u8, 0x01];
        let with_reason: [(u8, &[u8]); 8] = [
            (0x40, &id), (0x50, &id), (0x62, &id), (0x70, &id), // PUBACK PUBREC PUBREL PUBCOMP
            (0xe0, &[]), (0xf0, &[]),                           // DISCONNECT AUTH
            (0x90, &id), (0xb0, &id),                           // SUBACK UNSUBACK (reason in the payload)
        ];
        let stride = if thorough { 1 } else { 1 };
        for (first, head) in with_reason {
            for r in (0u16..=255).step_by(stride) {
                let r = r as u8;
                for long in [false, true] {
                    let mut body = head.to_vec();
                    if first == 0x90 || first == 0xb0 {
                        body.push(0); // property length, then the reason code as payload
                        body.push(r);
                        if long {
                            body.push(r);
                        }
                    } else {
                        body.push(r);
                        if long {
                            body.push(0);
                        }
                    }
                    let t = reframe(first, &body);
                    cases.push(mk(&run_prefix, t.clone(), liveness.clone()));
                    if matches!(first, 0xe0 | 0xf0) || r % 16 == 4 {
                        cases.push(mk(&connect_prefix, t, vec![]));
                    }
                }
            }
        }
        // CONNACK: every reason byte as first response (flags 0, reason, no properties)
        for r in 0u16..=255 {
            cases.push(mk(&connect_prefix, reframe(0x20, &[0, r as u8, 0]), vec![]));
            cases.push(mk(&run_prefix, reframe(0x20, &[0, r as u8, 0]), vec![]));
        }
    }
    let samples = if thorough { 6 } else { 2 };
    for &k in SERVER_KINDS {
        for _ in 0..samples {
            let p = valid_packet(&mut rng, k);
            let b = encode(&p);
            let (first, _, body) = split(&b);
            // (a) every truncation with adjusted remaining length, in both phases
            for cut in 0..body.len() {
                let t = reframe(first, &body[..cut]);
                cases.push(mk(&run_prefix, t.clone(), vec![]));
                cases.push(mk(&connect_prefix, t, vec![]));
            }
            // (b) remaining length +-1 followed by a valid packet
            for delta in [-1i64, 1] {
                let rl = (body.len() as i64 + delta).max(0) as u32;
                let mut v = vec![first];
                put_varint(&mut v, rl);
                v.extend_from_slice(body);
                v.extend_from_slice(&[0xd0, 0x00, 0xd0, 0x00]);
                cases.push(mk(&run_prefix, v, vec![]));
            }
            // (c) the intact packet at both phases (wrong phase for most); while running, the
            // client must either return or keep serving: a ping issued afterwards completes
            cases.push(mk(&run_prefix, b.clone(), liveness.clone()));
            cases.push(mk(&connect_prefix, b.clone(), vec![]));
        }
    }
    for &k in ALL_KINDS {
        let p = valid_packet(&mut rng, k);
        cases.push(mk(&connect_prefix, encode(&p), vec![]));
        cases.push(mk(&run_prefix, encode(&p), vec![]));
    }
    // (d) EOF / read error at every inbound offset, write error / zero write at every outbound offset
    let inbound: Vec<Vec<u8>> = vec![
        encode(&Packet::Suback(rc::SubAck { pid: 1, props: Props::new().with(pid::REASON_STRING, PropVal::Str("ok".into())), reasons: vec![0] })),
        encode(&Packet::Pubrec(rc::Ack { pid: 2, reason: 0, props: Props::new() })),
        vec![0xd0, 0x00],
        encode(&Packet::Publish(rc::Publish { dup: false, qos: 1, retain: false, topic: "a".into(), pid: Some(5), props: Props::new().with(pid::SUBSCRIPTION_ID, PropVal::VarInt(1)), payload: b"hello".to_vec() })),
        encode(&Packet::Pubcomp(rc::Ack { pid: 2, reason: 0, props: Props::new() })),
    ];
    let blob: Vec<u8> = inbound.iter().flatten().copied().collect();
    for cut in 0..=blob.len() {
        for kind in [FaultKind::ReadEof, FaultKind::ReadErr, FaultKind::ReadGlitch { kind: (cut % 4) as u8 }] {
            let mut steps = run_prefix.clone();
            if cut > 0 {
                steps.push(Step::Broker { pkt: BrokerPkt::Raw(blob.clone()), chunks: Chunks::Sizes(vec![cut]), hold: true });
                steps.push(Step::Deliver { n: 1 });
            }
            if matches!(kind, FaultKind::ReadGlitch { .. }) {
                // the rest of the stream is readable right behind the transient error
                steps.push(Step::Deliver { n: usize::MAX });
            }
            steps.push(Step::Fault(kind));
            steps.push(Step::Settle { seed: 4 });
            cases.push(Case { scenario: Scenario { config: config.clone(), steps }, aux: None, profile: "hostile/fault-sweep", gen_hash: None, systematic: true });
        }
    }
    // connect phase: EOF inside CONNACK at every offset
    let ca = encode(&Packet::Connack(rc::Connack { session_present: false, reason: 0, props: Props::new().with(pid::RECEIVE_MAXIMUM, PropVal::U16(3)) }));
    for cut in 0..ca.len() {
        for kind in [FaultKind::ReadEof, FaultKind::ReadErr] {
            let mut steps = connect_prefix.clone();
            if cut > 0 {
                steps.push(Step::Broker { pkt: BrokerPkt::Raw(ca.clone()), chunks: Chunks::Sizes(vec![cut]), hold: true });
                steps.push(Step::Deliver { n: 1 });
            }
            steps.push(Step::Fault(kind));
            steps.push(Step::Settle { seed: 4 });
            cases.push(Case { scenario: Scenario { config: config.clone(), steps }, aux: None, profile: "hostile/fault-sweep", gen_hash: None, systematic: true });
        }
    }
    // write faults: armed before anything is written, at every offset of the client's output
    for after in 0..120usize {
        for kind in [FaultKind::WriteErr { after }, FaultKind::WriteZero { after }] {
            let mut steps = vec![Step::Start { connect: connect.clone(), auths: vec![] }, Step::Fault(kind)];
            steps.extend(run_prefix[1..].iter().cloned());
            steps.push(Step::Broker { pkt: BrokerPkt::Raw(blob.clone()), chunks: Chunks::Whole, hold: false });
            steps.push(Step::Settle { seed: 5 });
            cases.push(Case { scenario: Scenario { config: config.clone(), steps }, aux: None, profile: "hostile/fault-sweep", gen_hash: None, systematic: true });
        }
    }
    cases
}
