//! posim: deterministic simulator for poster-rs (library part, also used by /verif/threads).

pub mod analysis;
pub mod check;
pub mod codec;
pub mod gen;
pub mod hostile;
pub mod oracle;
pub mod profiles;
pub mod props;
pub mod refcodec;
pub mod rng;
pub mod scenario;
pub mod spec;
pub mod world;
