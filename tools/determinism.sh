#!/bin/sh
# Proves replay determinism on a large sample: every profile's scenarios are executed with
# 1, 3 and N worker threads in-process (hashes compared), and the whole thing is repeated in
# several fresh processes whose digests must agree.
N="${1:-400}"
cd /verif/sim && cargo build --release --offline >/dev/null 2>&1 || exit 2
OUT=$(mktemp -d)
for i in 1 2 3 4; do
  ./target/release/posim selftest determinism --n "$N" --threads $((i * 5 + 1)) > "$OUT/run$i.txt" 2>&1 || { cat "$OUT/run$i.txt"; rm -rf "$OUT"; exit 2; }
done
grep DIGEST "$OUT"/run*.txt | awk '{print $NF}' | sort -u > "$OUT/digests"
cat "$OUT/run1.txt"
if [ "$(wc -l < "$OUT/digests")" != "1" ]; then echo "harness error: digests differ between processes"; cat "$OUT/digests"; rm -rf "$OUT"; exit 2; fi
echo "4 processes agree on the digest: $(cat "$OUT/digests")"
rm -rf "$OUT"
