#!/bin/sh
# usage: with_patch.sh [-R] <patch.diff> <command...>
# Applies a patch to /repo's working tree, runs the command, restores the tree.
REV=""
if [ "$1" = "-R" ]; then REV="-R"; shift; fi
PATCH="$1"; shift
if [ -n "$(git -C /repo status --porcelain --untracked-files=no)" ]; then echo "/repo has local changes; refusing" >&2; exit 2; fi
if ! git -C /repo apply $REV "$PATCH"; then echo "patch does not apply" >&2; exit 2; fi
"$@"; RC=$?
git -C /repo checkout -- . 
git -C /repo clean -fdq -- src examples 2>/dev/null
# the harness binaries were built against the patched tree: rebuild them against the restored one
(cd /verif/sim && CARGO_NET_OFFLINE=true cargo build --release --offline >/dev/null 2>&1)
exit $RC
