#!/usr/bin/env python3
"""Part of `./check C11`: folds the evidence of the shuttle (caller threads) part into evidence/C11.json."""
import json, sys, os
main = "/verif/evidence/C11.json"
thr = "/verif/evidence/C11.threads.json"
try:
    e = json.load(open(main)); t = json.load(open(thr))
except Exception as ex:
    print("harness error: cannot merge C11 evidence:", ex, file=sys.stderr); sys.exit(2)
c = e["coverage"]
c["threads"] = t
c["evaluations"] = int(c["evaluations"]) + int(t["executions"])
c["rule"] += " | threads part: 2-4 shuttle threads x 1-4 first polls each, counters preset 0-5 before the wrap, random and PCT schedulers; distinct counted for the single-task part only"
e["wall_s"] = float(e["wall_s"]) + float(t["wall_s"])
e["violations"] = int(e.get("violations", 0)) + int(t["violations"])
json.dump(e, open(main, "w"), indent=1)
os.remove(thr)
