#!/usr/bin/env python3
"""Sensitivity run: applies every patch in /verif/mutants (and /verif/seeded/*/patch.diff) to a
PRIVATE copy of /repo, builds a private copy of the harness against it, checks that the crate
still compiles and its 93 unit tests pass, runs the quick tier of the checks that should catch it
and writes /verif/mutants/RESULTS.md. Never touches /repo or /verif/sim themselves.

usage: run_mutants.py [substring ...]      (only patches whose name contains one of the substrings)
"""
import glob, json, os, re, shutil, subprocess, sys, time

SCR = f"/tmp/mutrun-{os.getpid()}"
ENV = dict(os.environ, CARGO_NET_OFFLINE="true")

# which checks are expected to catch which patch (first = the property it is aimed at)
TARGETS = {
    "m02a": ["C05", "C06"], "m02b": ["C05", "C06"], "m03": ["C05", "C06"], "m04a": ["C06"], "m04b": ["C06"],
    "m05": ["C06"], "m06": ["C06"], "m08": ["C08"], "m09": ["C08"], "m10a": ["C10"], "m10b": ["C10"],
    "m11": ["C10"], "m12a": ["C11"], "m12b": ["C11"], "m12c": ["C11"], "m13a": ["C12"], "m13b": ["C12"],
    "m13c": ["C12"], "m14a": ["C13"], "m14b": ["C13"], "m15": ["C16", "C07", "C14"], "m16": ["C03", "C16"],
    "m17": ["C01"], "m18a": ["C17"], "m18b": ["C17"], "m18c": ["C17"], "m19a": ["C01"], "m19b": ["C01", "C06"],
    "m20": ["C01"], "m21a": ["C02"], "m21b": ["C02"], "m22": ["C14"],
    "revert-C08": ["C08"], "revert-C09": ["C09"], "revert-C13a": ["C13"], "revert-C13b": ["C13"],
    "revert-C15": ["C15"], "revert-C07": ["C07"], "revert-C10": ["C10"], "revert-C03a": ["C03"],
    "revert-C03b": ["C03", "C04"], "revert-C03c": ["C04", "C03"],
    "revert-8b05aec": ["C17"], "revert-959e9c0": ["C17"], "revert-b0ea8a6": ["C11"], "revert-b2b1108": ["C02"],
    "revert-0de67af": ["C01"], "revert-062e43f": ["C01"], "revert-d94aa3d": ["C01"], "revert-6135416": ["C01"],
    "revert-5bff554": ["C04"], "revert-3f9582e": ["C04"], "revert-bcbd9d4": ["C02", "C13"], "revert-9218a11": ["C04"],
}


def sh(cmd, cwd=None, timeout=600):
    try:
        p = subprocess.run(cmd, shell=True, cwd=cwd, env=ENV, capture_output=True, text=True, timeout=timeout)
        return p.returncode, p.stdout + p.stderr
    except subprocess.TimeoutExpired:
        subprocess.run("pkill -f mutrun- || true", shell=True)
        return 3, "TIMEOUT"


def targets_for(name, path):
    for k, v in TARGETS.items():
        if name.startswith(k):
            return v
    meta = os.path.join(os.path.dirname(path), "meta.json")
    if os.path.exists(meta):
        m = json.load(open(meta))
        return m.get("checks") or [m["property"]]
    return []


def main():
    only = sys.argv[1:]
    patches = sorted(glob.glob("/verif/mutants/*.diff")) + sorted(glob.glob("/verif/seeded/*/patch.diff"))
    if only:
        patches = [p for p in patches if any(o in p for o in only)]
    shutil.rmtree(SCR, ignore_errors=True)
    os.makedirs(SCR)
    try:
        sh(f"git -C /repo worktree add -q --detach {SCR}/repo HEAD")
        shutil.copy("/repo/Cargo.lock", f"{SCR}/repo/Cargo.lock")
        for d in ("sim", "threads", "vendor"):
            shutil.copytree(f"/verif/{d}", f"{SCR}/verif/{d}", ignore=shutil.ignore_patterns("target"))
        for f in glob.glob(f"{SCR}/verif/*/Cargo.toml"):
            s = open(f).read().replace('path = "/repo"', f'path = "{SCR}/repo"')
            open(f, "w").write(s)
        os.makedirs(f"{SCR}/out")
        shutil.copytree("/verif/findings", f"{SCR}/out/findings")
        shutil.copy("/verif/known_findings.json", f"{SCR}/out/known_findings.json")
        rows = []
        for path in patches:
            name = os.path.basename(path)[:-5] if "/mutants/" in path else "seeded/" + os.path.basename(os.path.dirname(path))
            tg = targets_for(os.path.basename(name), path)
            t0 = time.time()
            sh("git checkout -q -- . && git clean -fdq src", cwd=f"{SCR}/repo")
            rc, out = sh(f"git apply {path}", cwd=f"{SCR}/repo")
            if rc != 0:
                rows.append((name, tg, "PATCH DOES NOT APPLY", "", 0))
                continue
            rc, out = sh("cargo test --offline --lib 2>&1 | grep -E '^test result|^error' | head -3", cwd=f"{SCR}/repo")
            suite = "93 pass" if "93 passed; 0 failed" in out else "SUITE: " + out.strip().replace("\n", " ")[:80]
            rc, out = sh("cargo build --release --offline 2>&1 | grep -E '^error' -A5 | head -20", cwd=f"{SCR}/verif/sim")
            if out.strip():
                rows.append((name, tg, "DOES NOT COMPILE (verif feature)", suite, time.time() - t0))
                continue
            caught_by, missed_by, classes = [], [], []
            for prop in tg:
                shutil.rmtree(f"{SCR}/out/replays", ignore_errors=True)
                rc, out = sh(f"./target/release/posim check {prop} --tier quick --out {SCR}/out --tag checked", cwd=f"{SCR}/verif/sim")
                hit = rc == 1
                if not hit and prop in ("C03", "C04"):
                    sh("cargo build --profile wrapping --offline", cwd=f"{SCR}/verif/sim")
                    rc, out2 = sh(f"./target/wrapping/posim check {prop} --tier quick --out {SCR}/out --tag wrapping", cwd=f"{SCR}/verif/sim")
                    hit = rc == 1
                    out += out2
                if not hit and prop == "C11":
                    sh("cargo build --release --offline", cwd=f"{SCR}/verif/threads")
                    rc, out2 = sh(f"./target/release/posim-threads check --tier quick --out {SCR}/out", cwd=f"{SCR}/verif/threads")
                    hit = rc == 1
                    out += out2
                if not hit and prop in ("C07", "C05"):
                    sh("cargo build --release --offline", cwd=f"{SCR}/verif/threads")
                    rc, out2 = sh(f"./target/release/posim-threads check --prop {prop} --tier quick --out {SCR}/out", cwd=f"{SCR}/verif/threads")
                    hit = rc == 1
                    out += out2
                if rc == 2:
                    classes.append(f"{prop}: HARNESS ERROR")
                if rc == 3:
                    classes.append(f"{prop}: CHECK DID NOT TERMINATE WITHIN 600 s")
                cl = re.findall(r"class(?:/message)?:\s+(\S+)", out)
                if hit:
                    caught_by.append(prop)
                    classes.append(f"{prop}: " + ", ".join(sorted(set(cl))[:4]))
                else:
                    missed_by.append(prop)
            verdict = "caught by " + ", ".join(caught_by) if caught_by else "MISSED"
            if missed_by and caught_by:
                verdict += " (not by " + ", ".join(missed_by) + ")"
            rows.append((name, tg, verdict, suite + "; " + " | ".join(classes), time.time() - t0))
            print(f"{name}: {verdict} [{time.time() - t0:.0f}s]", flush=True)
            write_results(rows, only)
        write_results(rows, only)
    finally:
        sh(f"git -C /repo worktree remove --force {SCR}/repo")
        shutil.rmtree(SCR, ignore_errors=True)
        sh("git -C /repo worktree prune")


def write_results(rows, only):
    if True:
        with open("/verif/mutants/RESULTS.md" if not only else f"/verif/mutants/RESULTS.partial.md", "w") as f:
            f.write("# Sensitivity: planted changes vs checks\n\n")
            f.write("Produced by `tools/run_mutants.py` (private copy of /repo and of the harness; quick tier, seed 1).\n")
            f.write("Every patch compiles and passes the crate's 93 unit tests unless noted.\n\n")
            f.write("| patch | aimed at | result | suite; violation classes | s |\n|---|---|---|---|---|\n")
            for name, tg, verdict, detail, secs in rows:
                f.write(f"| {name} | {' '.join(tg)} | {verdict} | {detail} | {secs:.0f} |\n")
            missed = [r for r in rows if r[2].startswith("MISSED")]
            f.write(f"\n{len(rows)} patches, {len(rows) - len(missed)} caught, {len(missed)} missed.\n")


if __name__ == "__main__":
    main()
