#!/usr/bin/env python3
"""Part of `./check C05|C07|C11`: folds the evidence of the shuttle (caller threads) part into evidence/<ID>.json.
usage: merge_threads.py <ID>"""
import json, sys, os
pid = sys.argv[1] if len(sys.argv) > 1 else "C11"
main = f"/verif/evidence/{pid}.json"
thr = f"/verif/evidence/{pid}.threads.json"
try:
    e = json.load(open(main)); t = json.load(open(thr))
except Exception as ex:
    print(f"harness error: cannot merge {pid} evidence:", ex, file=sys.stderr); sys.exit(2)
c = e["coverage"]
c["threads"] = t
c["evaluations"] = int(c["evaluations"]) + int(t["executions"])
if pid == "C11":
    c["rule"] += " | threads part: 2-4 shuttle threads x 1-4 first polls each, counters preset 0-5 before the wrap, random and PCT schedulers; distinct counted for the single-task part only"
elif pid == "C05":
    c["rule"] += " | threads part: 2-4 shuttle threads x 1-3 operations (QoS 1/2 publish, subscribe, unsubscribe) started concurrently, identifiers preset next to the wrap or next to 255/256, every request acknowledged in reverse wire order with a reason string naming it; every future must complete exactly once with its own acknowledgement; random and PCT schedulers; distinct counted for the single-task part only"
else:
    c["rule"] += " | threads part: 2-3 shuttle threads x 1-3 concurrent subscribe() calls each (scheduling points before and after every access to the shared identifier counters), then one message per subscription identifier before and after the SUBACKs; every call must receive exactly its own; random and PCT schedulers; distinct counted for the single-task part only"
e["wall_s"] = float(e["wall_s"]) + float(t["wall_s"])
e["violations"] = int(e.get("violations", 0)) + int(t["violations"])
json.dump(e, open(main, "w"), indent=1)
os.remove(thr)
