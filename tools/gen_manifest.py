#!/usr/bin/env python3
"""Writes /verif/MANIFEST.json from the table below (single source of truth)."""
import json, subprocess

HOOK_COMMITS = subprocess.run(["git", "-C", "/repo", "log", "--format=%h %s"], capture_output=True, text=True).stdout.splitlines()
hook_commits = [l.split()[0] for l in HOOK_COMMITS if l.split(" ", 1)[1].startswith("verif hooks")]

TRUST = ("trusted base: the simulator itself (executor, transports, scripted broker), the independent reference codec "
         "/verif/sim/src/refcodec.rs (self-tested in setup), futures-channel 0.3.34 as locked, the one-function select! hook in the "
         "vendored futures-util. Seeded sampling: a clean batch is evidence, not proof.")

CHECKS = {
 "C05": ("exploration", "3.C05", "seeded deterministic simulation: conformant-ops profile (identifier jumps, coalescing reads), oracle over recorded history (completion causality + content attribution per operation); plus operations started concurrently from caller threads under the shuttle controlled scheduler and acknowledged in reverse order",
         "Exploration by seeded simulation of concurrent operations from several handle clones against a conformant scripted broker, with random acknowledgement order/delay, chunked reads, partial writes and three select! policies; each run is re-executed from its recorded scenario and judged over the history. Right level because the property quantifies over interleavings that only a controlled executor can sample."),
 "C06": ("exploration", "3.C06", "seeded deterministic simulation: publish-only conformant profile with every PUBACK/PUBREC/PUBCOMP reason code; wire-trace + result oracle",
         "Exploration: QoS 0/1/2 publishes with all legal reason codes, delayed polling of the QoS 2 future between its phases; oracle reads the wire through the reference decoder (DUP, fields, PUBREL causality/count) and the publish() results."),
 "C07": ("exploration", "3.C07", "seeded deterministic simulation: inbound profile (bursts next to powers of two, small server Receive Maximum), per-stream expected item list vs items yielded; plus concurrent subscribe() calls from caller threads under the shuttle controlled scheduler (random + PCT), one message per subscription identifier",
         "Exploration: interleavings of subscribe, SUBACK, server PUBLISH (registered / unknown / absent / multiple identifiers), stream open/drop, unsubscribe; oracle compares every stream's yielded items with the injected PUBLISH packets carrying its identifier, accessor by accessor. Threads part: 2-3 shuttle threads x 1-3 subscribe() calls, scheduling points before and after every access to the shared identifier counters (so allocation order and queueing order can differ), then every call must receive exactly the messages carrying its own identifier."),
 "C08": ("exploration", "3.C08", "seeded deterministic simulation: inbound profile with writer back-pressure; acknowledgement sequence on the wire vs arrival sequence",
         "Exploration: inbound QoS 0/1/2 PUBLISH and PUBREL mixes interleaved with client operations; oracle matches the PUBACK/PUBREC/PUBCOMP sequence on the wire one-to-one and in order against the injected packets."),
 "C09": ("exploration", "3.C09", "seeded deterministic simulation: QoS 2 re-delivery histories checked against a set model (received-not-released)",
         "Exploration of histories over {PUBLISH(QoS2,id,DUP), PUBREL(id)} with re-deliveries and identifier reuse; reference model = set of unreleased identifiers; oracle = stream items equal the model's distinct messages and every re-delivery is still answered with PUBREC."),
 "C10": ("exploration", "3.C10", "seeded deterministic simulation: Receive Maximum histories (also with a Maximum Packet Size, identifier jumps, and across a lost connection and a resumed or expired session) + quiescent probe (free+1 publishes) against a wire-level slot model keyed by packet identifier",
         "Exploration: R in {1..12, absent}, bursts, every failing completion kind, then at quiescence exactly `free` publishes must be accepted and one refused; plus a broker-view safety counter and a serial-order-impossibility test for QuotaExceeded."),
 "C01": ("exploration", "3.C01", "deterministic simulation end to end + seeded option-space generation; wire bytes decoded by the independent strict reference codec and compared field by field with the caller's options; partial / pending writes from the simulated transport",
         "Exploration: random subsets of every option of Connect/Auth/Publish/Subscribe/Subscription/Unsubscribe/Disconnect options with boundary values (0,1,127,128,16383,16384,65535-byte strings, multi-byte UTF-8, integer extremes, 0..n user properties, 1..n filters, payloads across the 1/2/3(/4 in thorough)-byte remaining-length boundaries), requests with a mandatory part missing, issued through the public API of a running client from several handles while the simulated AsyncWrite accepts 1..n bytes per call or blocks. The simulator's share is the end-to-end path and the write-fragmentation dimension; the option space is decided by seeded generation against the independent codec (said plainly in DESIGN.md)."),
 "C02": ("exploration", "3.C02", "deterministic simulation end to end + seeded packet-space generation by the independent reference encoder (all server packet types, legal property subsets in shuffled order, short forms, boundary lengths), delivered through chunked reads; every public accessor compared",
         "Exploration: the reference encoder generates CONNACK/AUTH/PUBLISH/PUBACK/PUBREC/PUBREL/PUBCOMP/SUBACK/UNSUBACK/PINGRESP/DISCONNECT with every legal reason code, random legal property subsets in random order, repeated user properties, the short forms the standard defines, and delivers each at the phase where its values become visible; oracle compares every accessor of ConnectRsp/ConnectError/AuthRsp/SubscribeRsp/UnsubscribeRsp/PublishData/Pub*Error/Disconnected/UserProperties with the generated value and requires that run()/connect() accept the packet. Reassembly makes the outcome a function of (packet, chunking), which is the simulator's share."),
 "C03": ("exploration", "3.C03", "deterministic simulation, differential oracle: chunked delivery vs one read per packet; systematic composition sweeps (all 2^(n-1) compositions of short streams, every cut position, 512/1024 alignments) + seeded random chunkings; both arithmetic profiles",
         "Exploration with bounded systematic sweeps inside the simulator: every composition of short inbound streams (connect and run phase), every single cut and every cut pair around the 512/1024-byte buffer steps of a long multi-packet stream, fixed chunk sizes, 3-byte (thorough: 4-byte) remaining lengths, readers that return Pending between chunks and readers that scribble the unfilled buffer tail; the observable trace must equal the packet-per-read reference, no stall with unread bytes, no early end-of-stream. Run with overflow checks on and off."),
 "C16": ("exploration", "3.C16", "deterministic simulation, differential oracle over polling disciplines: wake-only vs sweep (every task polled after every step) vs spurious polls at seeded positions; quiescence sweep probe",
         "Exploration: each seeded scenario is executed three times - wake-only, wake-only plus a sweep of all non-woken tasks after every step, wake-only plus spurious polls at random positions - and wire bytes, results and stream items must be identical; in the wake-only run a final sweep must change nothing and no quiescent point may leave readable input unconsumed."),
 "C04": ("fault_enumeration", "3.C04", "deterministic simulation with fault injection: hostile scripted broker (byte soup, 12 mutation kinds of valid packets, every packet type at every phase) + transport faults; systematic truncation / fault-offset sweeps; both arithmetic profiles",
         "Fault enumeration: systematically, every truncation of sampled valid packets of every server packet type (both phases), remaining length +-1, every packet type as first response and while running, EOF / read error at every inbound byte offset and write error / zero-length write at every outbound byte offset of a base scenario; plus seeded random placement of hostile bytes and faults inside conformant workloads with in-flight state. Oracle: no panic in any poll (documented assertion exempted), no stall with unread input, no busy loop, connect()/run() returns once the transport has ended. Run with overflow checks on and off."),
 "C11": ("exploration", "3.C11", "deterministic simulation: long single-task histories across the 65535 identifier wrap (macro step, online uniqueness check), short diverse runs preset next to the wrap, and caller threads under the shuttle controlled scheduler (random + PCT) with every access to the shared counters a scheduling point",
         "Exploration: (a) histories of 66k-200k identifier-consuming operations from 1-4 clones with 0-50 outstanding, checked online for non-zero identifiers that are unique among outstanding operations; (b) thousands of short conformant runs whose counters are preset 0-30 before the wrap; (c) 2-4 shuttle threads, each with its own clone, each starting 1-4 operations, counters preset next to the wrap, the guarded atomic shim making every counter access a scheduling point; failing schedules are persisted by shuttle and replay exactly. Wire judged by one oracle in all three."),
 "C12": ("exploration", "3.C12", "deterministic simulation with a twin run: the same recorded scenario is executed with and without the announced Maximum Packet Size; packet lengths L are read off the twin's wire, requests are padded to L in {M-1, M, M+1}",
         "Exploration: M in {absent, 1, 2, 3, values around the 127/128 and 16383/16384 length boundaries, 65-70k, 2^32-1, random 12..90} x requests of every kind padded through payload / topic / filter / user property / reason string so that the encoded length lands on M-1, M, M+1; oracle: L > M => MaximumPacketSizeExceeded and not one byte written, L <= M => written in full; afterwards the quota probe finds exactly the free Receive Maximum slots (nothing left behind) and no operation completes twice."),
 "C13": ("fault_enumeration", "3.C13", "seeded deterministic simulation with fault injection: every terminating cause (user/server DISCONNECT, EOF, read/write error, handles dropped, undecodable input) injected at random session states; connect()/authorize() outcomes",
         "Fault enumeration by seeded search: one terminating cause per run (kind enumerated by the generator, position random over conformant histories with operations outstanding, streams open, mid-QoS 2), oracle demands the exact documented variant and that run() is still pending when no cause occurred; faults fired are counted per kind in the evidence."),
 "C14": ("fault_enumeration", "3.C14", "seeded deterministic simulation: crash-point injection (DropContext after a random prefix of conformant/inbound histories), wake-only executor, hang detection at quiescence",
         "Crash-point search: the context is dropped after a random prefix of every generated history, then all streams are opened and new operations started; oracle: no task left pending and un-woken, ContextExited for everything not completed before the drop, streams yield what they had and end."),
 "C15": ("exploration", "3.C15", "seeded deterministic simulation: cancellation (drop of operation futures / streams) at random points with late acknowledgements still delivered; survivors judged by the C05/C07 oracles; quota probe",
         "Exploration of cancellation points over concurrent workloads: run() must stay pending, surviving operations and streams must satisfy the C05/C07 oracles, and after the late acknowledgements exactly the broker-view number of free Receive Maximum slots is available."),
 "C17": ("fault_enumeration", "3.C17", "deterministic simulation with crash-point enumeration: connection cut after every prefix of seeded QoS 1/2 histories (systematic) and at random points, simulated clock for session expiry, reconnect through the guarded verif_mark_disconnected hook; model of the outbound session vs the first bytes on the new connection",
         "Crash-point enumeration: for seeded base histories the connection is cut (EOF / read error at a boundary or inside an acknowledgement; secondary: write error) after every prefix, with session expiry in {absent, 0, finite, never} from CONNECT and/or CONNACK and offline time well before / well after the expiry on the simulated clock; then reconnect. Oracle: a reference model of unacknowledged PUBLISH / PUBREL packets; not expired => exactly these are re-sent first, in original order, same identifier and content, DUP=1, nothing acknowledged, and the original futures complete on the new connection's acknowledgements; expired => nothing re-sent and abandoned futures fail."),
}

def entry(pid, v):
    level, ref, technique, text = v
    return {
        "property_id": pid,
        "quick_cmd": f"./check {pid} quick",
        "thorough_cmd": f"./check {pid} thorough",
        "evidence_file": f"/verif/evidence/{pid}.json",
        "replay_cmd_template": "/verif/sim/target/release/posim replay {path}",
        "engine": "posim",
        "level_claimed": {"category": level, "text": text, "design_ref": ref},
        "level_note": TRUST,
        "technique": technique,
    }

def fixups(m):
    for c in m["checks"]:
        if c["property_id"] in ("C11", "C07", "C05"):
            c["replay_cmd_template"] = "/verif/sim/target/release/posim replay {path}   (for *.schedule files: /verif/threads/target/release/posim-threads replay {path})"
    return m

manifest = {
    "version": 1,
    "setup_cmd": "cd /verif/sim && CARGO_NET_OFFLINE=true cargo build --release --offline && CARGO_NET_OFFLINE=true cargo build --profile wrapping --offline && ./target/release/posim selftest refcodec && cd /verif/threads && CARGO_NET_OFFLINE=true cargo build --release --offline",
    "hooks": {
        "guard": "cargo feature `verif` of crate poster (off by default)",
        "enable": "the harness crate /verif/sim depends on poster = { path = \"/repo\", features = [\"verif\"] }; cargo rebuilds poster from /repo's working tree on every check",
        "baseline_off_cmd": "cd /repo && CARGO_NET_OFFLINE=true cargo test --workspace --no-fail-fast --offline",
        "source_commits": hook_commits,
        "add_only": False,
    },
    "engines": [
        {"name": "posim-threads", "path": "/verif/threads", "serves_properties": ["C05", "C07", "C11"],
         "kind_free_text": "shuttle 0.9.3 controlled thread scheduler (random and PCT) driving caller threads at the identifier allocation / request submission; the context, broker and wire are then served and judged inside posim"},
        {"name": "posim", "path": "/verif/sim", "serves_properties": sorted(CHECKS.keys()),
         "kind_free_text": "deterministic discrete-event simulator (own executor, AsyncRead/AsyncWrite transports, scripted MQTT 5 broker with independent codec, simulated clock, hooked select! arbiter) with seeded fault injection, ddmin minimiser and replay files"},
    ],
    "checks": [entry(k, CHECKS[k]) for k in sorted(CHECKS)],
    "notes": "All checks: seed from VERIF_SEED (default 1); exit 2 = harness error. Non-additive hook lines: the `use` of the id-counter atomics in handle.rs/context.rs and the elapsed-time expression in session_expired are cfg-switched.",
    "not_applicable": [],
}
json.dump(fixups(manifest), open("/verif/MANIFEST.json", "w"), indent=1)
print("checks:", ", ".join(sorted(CHECKS)))
