#!/bin/sh
# usage: verify_seeded.sh <scratch worktree> <dest dir under /verif/seeded> <property>...
# Confirms a sub-agent's planted change in its scratch worktree (existing tests pass with it,
# demo fails with it and passes without), stores it, then runs the given checks against it.
WT="$1"; DEST="$2"; shift 2
export CARGO_NET_OFFLINE=true CARGO_TARGET_DIR="$WT/target"
cd "$WT" || exit 2
git diff -- src > /tmp/seeded-$$.diff
[ -s /tmp/seeded-$$.diff ] || cp adv_out/patch.diff /tmp/seeded-$$.diff
git checkout -q -- src && git apply /tmp/seeded-$$.diff || { echo "patch does not apply in worktree"; exit 2; }
echo "--- existing suite with the change:"
cargo test --offline --lib 2>&1 | grep -E "^test result" | head -1
cargo build --offline --features verif 2>&1 | grep -E "^error" | head -3
echo "--- demo with the change (must fail):"
timeout 300 cargo test --offline $FEATURES --test adv_demo 2>&1 | grep -E "^test result|panicked|FAILED|error\[" | head -4
git checkout -q -- src
echo "--- demo without the change (must pass):"
timeout 300 cargo test --offline $FEATURES --test adv_demo 2>&1 | grep -E "^test result|FAILED" | head -2
git apply /tmp/seeded-$$.diff
mkdir -p "$DEST"
cp /tmp/seeded-$$.diff "$DEST/patch.diff"; cp tests/adv_demo.rs "$DEST/adv_demo.rs" 2>/dev/null; cp adv_out/NOTES.md "$DEST/NOTES.md" 2>/dev/null
unset CARGO_TARGET_DIR
echo "--- my checks with the change applied to /repo:"
if ! git -C /repo apply --check "$DEST/patch.diff" 2>/dev/null; then
  # /repo has moved on since the scratch worktree was taken (hook commits): rebase the patch
  if git -C /repo apply --3way "$DEST/patch.diff" >/dev/null 2>&1 && [ -z "$(git -C /repo diff --name-only --diff-filter=U)" ]; then
    cp "$DEST/patch.diff" "$DEST/patch.original.diff"
    git -C /repo diff HEAD -- src > "$DEST/patch.diff"
    git -C /repo reset -q --hard HEAD
    echo "(patch rebased onto /repo HEAD; original kept as patch.original.diff)"
  else
    git -C /repo reset -q --hard HEAD
    echo "PATCH DOES NOT APPLY TO /repo HEAD"; rm -f /tmp/seeded-$$.diff; exit 3
  fi
fi
for P in "$@"; do
  /verif/tools/with_patch.sh "$DEST/patch.diff" sh -c "cd /verif && ./check $P quick 2>&1 | grep -E 'VIOLATION|class:|^done|harness' | cut -c1-220 | head -12"
done
rm -f /tmp/seeded-$$.diff
